// verif: driver of the deterministic-simulation checks for go-jt808.
//
//	verif setup                       build tools, warm caches, short self-test
//	verif check <ID> [--tier quick|thorough]
//	verif replay <file>
//	verif selftest [--full]
//
// Exit codes: 0 property held on everything explored; 1 violation (a VIOLATION line is printed);
// 2 infrastructure trouble (never a VIOLATION line).
package main

import (
	"crypto/sha256"
	"encoding/hex"
	"encoding/json"
	"fmt"
	"io/fs"
	"os"
	"os/exec"
	"path/filepath"
	"runtime"
	"sort"
	"strconv"
	"strings"
	"sync"
	"time"
)

const (
	verifDir = "/verif"
	goBin    = "/opt/veriftools/go1.26.8/bin"
)

// repoDir is the tree under test: /repo, unless VERIF_REPO points at a scratch worktree (used to evaluate
// seeded changes without touching /repo; the registered commands never set it).
var repoDir = func() string {
	if d := os.Getenv("VERIF_REPO"); d != "" {
		return filepath.Clean(d)
	}
	return "/repo"
}()

// altModfile writes a copy of sim/go.mod whose replace directives point at repoDir, for -modfile.
func altModfile(dir string) (string, error) {
	if repoDir == "/repo" {
		return "", nil
	}
	b, err := os.ReadFile(filepath.Join(verifDir, "sim", "go.mod"))
	if err != nil {
		return "", err
	}
	mod := strings.ReplaceAll(string(b), "=> /repo/", "=> "+repoDir+"/")
	alt := filepath.Join(dir, "alt.mod")
	if err := os.WriteFile(alt, []byte(mod), 0o644); err != nil {
		return "", err
	}
	sum, _ := os.ReadFile(filepath.Join(verifDir, "sim", "go.sum"))
	os.WriteFile(filepath.Join(dir, "alt.sum"), sum, 0o644)
	return alt, nil
}

func goEnv() []string {
	env := os.Environ()
	env = append(env,
		"GOFLAGS=-mod=mod", "GOPROXY=off", "GOSUMDB=off", "GOTOOLCHAIN=local",
		"PATH="+goBin+":"+os.Getenv("PATH"),
		"GOCACHE="+filepath.Join(verifDir, ".cache", "go-build"),
	)
	return env
}

var cleanup []func()

func die(code int, format string, a ...any) {
	for _, f := range cleanup {
		f()
	}
	fmt.Fprintf(os.Stderr, "verif: "+format+"\n", a...)
	os.Exit(code)
}

var goExe = filepath.Join(goBin, "go")

func main() {
	if len(os.Args) < 2 {
		die(2, "usage: verif setup|check|replay|selftest")
	}
	switch os.Args[1] {
	case "setup":
		cmdSetup()
	case "check":
		cmdCheck(os.Args[2:])
	case "replay":
		cmdReplay(os.Args[2:])
	case "selftest":
		cmdSelftest(os.Args[2:])
	default:
		die(2, "unknown command %q", os.Args[1])
	}
}

// ---------- tree hash, instrument, build ----------

func hashTree() string {
	h := sha256.New()
	var files []string
	for _, root := range []string{
		filepath.Join(repoDir, "service"), filepath.Join(repoDir, "attachment"), filepath.Join(repoDir, "protocol"),
		filepath.Join(repoDir, "shared"), filepath.Join(repoDir, "terminal"), filepath.Join(verifDir, "sim"),
	} {
		filepath.WalkDir(root, func(p string, d fs.DirEntry, err error) error {
			if err != nil || d.IsDir() {
				return nil
			}
			if strings.HasSuffix(p, ".go") || strings.HasSuffix(p, "go.mod") || strings.Contains(p, "testdata") {
				files = append(files, p)
			}
			return nil
		})
	}
	sort.Strings(files)
	for _, f := range files {
		b, err := os.ReadFile(f)
		if err != nil {
			continue
		}
		fmt.Fprintf(h, "%s %d\n", f, len(b))
		h.Write(b)
	}
	return hex.EncodeToString(h.Sum(nil))[:20]
}

func run(dir string, env []string, name string, args ...string) (string, error) {
	cmd := exec.Command(name, args...)
	cmd.Dir = dir
	cmd.Env = env
	out, err := cmd.CombinedOutput()
	return string(out), err
}

// ensureTools builds verif-instr (cached by the hash of /verif/sim/instr).
func ensureTools() string {
	bin := filepath.Join(verifDir, "bin", "verif-instr")
	src := filepath.Join(verifDir, "sim", "instr", "main.go")
	bi, e1 := os.Stat(bin)
	si, e2 := os.Stat(src)
	if e1 == nil && e2 == nil && bi.ModTime().After(si.ModTime()) {
		return bin
	}
	os.MkdirAll(filepath.Join(verifDir, "bin"), 0o755)
	tmp := bin + fmt.Sprintf(".tmp%d", os.Getpid())
	out, err := run(filepath.Join(verifDir, "sim"), goEnv(), goExe, "build", "-o", tmp, "./instr")
	if err != nil {
		die(2, "building verif-instr failed:\n%s", out)
	}
	os.Rename(tmp, bin)
	return bin
}

type buildInfo struct {
	Dir   string
	Bin   string
	Meta  map[string]json.RawMessage
	Hash  string
	Built bool
}

// ensureBinary instruments /repo's current working tree and builds the simulator binary for mode
// ("det" or "race"), cached by tree hash. Generated sources live in a temp dir that is removed afterwards.
func ensureBinary(mode string) *buildInfo {
	hash := hashTree()
	dir := filepath.Join(verifDir, ".cache", "trees", hash)
	bin := filepath.Join(dir, "sim."+mode)
	bi := &buildInfo{Dir: dir, Bin: bin, Hash: hash}
	if _, err := os.Stat(bin); err == nil {
		now := time.Now()
		os.Chtimes(dir, now, now) // mark the tree as in use: pruneCache spares recently used trees
		return bi
	}
	os.MkdirAll(dir, 0o755)
	// serialise concurrent builders of the same tree
	lock := filepath.Join(dir, "lock."+mode)
	for i := 0; ; i++ {
		if err := os.Mkdir(lock, 0o755); err == nil {
			break
		}
		if _, err := os.Stat(bin); err == nil {
			return bi
		}
		if st, err := os.Stat(lock); err == nil && time.Since(st.ModTime()) > 15*time.Minute {
			os.Remove(lock)
		}
		time.Sleep(500 * time.Millisecond)
		if i > 3600 {
			die(2, "timed out waiting for build lock %s", lock)
		}
	}
	defer os.Remove(lock)
	cleanup = append(cleanup, func() { os.Remove(lock) })
	if _, err := os.Stat(bin); err == nil {
		return bi
	}
	instr := ensureTools()
	tmp, err := os.MkdirTemp("", "verif-gen-")
	if err != nil {
		die(2, "mktemp: %v", err)
	}
	defer os.RemoveAll(tmp)
	cleanup = append(cleanup, func() { os.RemoveAll(tmp) })
	env := goEnv()
	alt, aerr := altModfile(tmp)
	if aerr != nil {
		die(2, "alt modfile: %v", aerr)
	}
	if alt != "" {
		env = append(env, "GOFLAGS=-mod=mod -modfile="+alt)
	}
	out, err := run(filepath.Join(verifDir, "sim"), env, instr, "-src", filepath.Join(repoDir, "service"), "-dst", filepath.Join(tmp, "service"), "-meta", filepath.Join(tmp, "service.json"))
	if err != nil {
		die(2, "cannot instrument service (tree does not type-check or rewriter refused):\n%s", out)
	}
	out, err = run(filepath.Join(verifDir, "sim"), env, instr, "-src", filepath.Join(repoDir, "attachment"), "-dst", filepath.Join(tmp, "attachment"), "-os", "-probebase", "1000", "-meta", filepath.Join(tmp, "attachment.json"))
	if err != nil {
		die(2, "cannot instrument attachment:\n%s", out)
	}
	// protocol/model is linked unmodified except for yield hooks inside the ReplyBody methods (so that two
	// connections' writers can be interleaved inside a handler's reply computation)
	out, err = run(filepath.Join(verifDir, "sim"), env, instr, "-src", filepath.Join(repoDir, "protocol", "model"), "-dst", filepath.Join(tmp, "model"), "-hookmethods", "ReplyBody")
	if err != nil {
		die(2, "cannot instrument protocol/model:\n%s", out)
	}
	rep := map[string]string{}
	for _, pkg := range []string{"service", "attachment"} {
		ents, _ := os.ReadDir(filepath.Join(tmp, pkg))
		for _, e := range ents {
			rep[filepath.Join(verifDir, "sim", "gen", pkg, e.Name())] = filepath.Join(tmp, pkg, e.Name())
		}
	}
	ments, _ := os.ReadDir(filepath.Join(tmp, "model"))
	for _, e := range ments {
		rep[filepath.Join(repoDir, "protocol", "model", e.Name())] = filepath.Join(tmp, "model", e.Name())
	}
	ob, _ := json.Marshal(map[string]any{"Replace": rep})
	overlay := filepath.Join(tmp, "overlay.json")
	os.WriteFile(overlay, ob, 0o644)
	args := []string{"test", "-c", "-vet=off", "-overlay", overlay, "-o", bin + ".tmp"}
	if mode == "race" {
		args = append(args, "-race")
	}
	args = append(args, "./harness")
	out, err = run(filepath.Join(verifDir, "sim"), env, goExe, args...)
	if err != nil {
		die(2, "simulator build failed (mode %s):\n%s", mode, out)
	}
	for _, pkg := range []string{"service", "attachment"} {
		b, _ := os.ReadFile(filepath.Join(tmp, pkg+".json"))
		os.WriteFile(filepath.Join(dir, pkg+".meta.json"), b, 0o644)
	}
	os.Rename(bin+".tmp", bin)
	bi.Built = true
	pruneCache(hash)
	return bi
}

// pruneCache keeps the five most recent trees.
func pruneCache(keep string) {
	root := filepath.Join(verifDir, ".cache", "trees")
	ents, _ := os.ReadDir(root)
	type e struct {
		name string
		t    time.Time
	}
	var es []e
	for _, d := range ents {
		if st, err := os.Stat(filepath.Join(root, d.Name())); err == nil {
			es = append(es, e{d.Name(), st.ModTime()})
		}
	}
	sort.Slice(es, func(i, j int) bool { return es[i].t.After(es[j].t) })
	for i, x := range es {
		// keep the newest six and everything used within the last three hours (a long thorough run may
		// still be executing its binary while other trees are being built)
		if i >= 6 && x.name != keep && time.Since(x.t) > 3*time.Hour {
			os.RemoveAll(filepath.Join(root, x.name))
		}
	}
}

// ---------- setup ----------

func cmdSetup() {
	t0 := time.Now()
	os.MkdirAll(filepath.Join(verifDir, "evidence"), 0o755)
	os.MkdirAll(filepath.Join(verifDir, "replays"), 0o755)
	ensureTools()
	self, _ := os.Executable()
	_ = self
	b := ensureBinary("det")
	fmt.Printf("setup: DET simulator %s (built=%v)\n", b.Bin, b.Built)
	r := ensureBinary("race")
	fmt.Printf("setup: RACE simulator %s (built=%v)\n", r.Bin, r.Built)
	if err := selftest(false); err != nil {
		die(2, "self-test failed: %v", err)
	}
	fmt.Printf("setup: ok in %s\n", time.Since(t0).Round(time.Second))
}

// ---------- check ----------

type tierSpec struct {
	Runs    int // seeded random runs
	Batch   int
	WallCap time.Duration
	Seeds   int // number of seed streams (thorough runs several)
}

func specFor(prop, tier string) tierSpec {
	s := tierSpec{Runs: 40000, Batch: 250, WallCap: 75 * time.Second, Seeds: 1}
	if tier == "thorough" {
		s = tierSpec{Runs: 1200000, Batch: 250, WallCap: 12 * time.Minute, Seeds: 3}
	}
	switch prop {
	case "C18":
		s.Runs /= 8
	case "C15", "C16", "C19", "C10":
		s.Runs /= 2
	}
	if v := os.Getenv("VERIF_RUNS"); v != "" {
		if n, err := strconv.Atoi(v); err == nil {
			s.Runs = n
		}
	}
	if v := os.Getenv("VERIF_WALLCAP_S"); v != "" {
		if n, err := strconv.Atoi(v); err == nil {
			s.WallCap = time.Duration(n) * time.Second
		}
	}
	return s
}

type batchOut struct {
	Prop        string            `json:"prop"`
	Runs        int               `json:"runs"`
	Enumerated  int               `json:"enumerated"`
	Steps       int64             `json:"steps"`
	SimNs       int64             `json:"sim_ns"`
	WallMs      int64             `json:"wall_ms"`
	Faults      map[string]int    `json:"faults"`
	Rare        map[string]int    `json:"rare"`
	SchedHashes []uint64          `json:"sched_hashes"`
	PlanHashes  []uint64          `json:"plan_hashes"`
	Interesting int               `json:"interesting"`
	IntHashes   []uint64          `json:"int_hashes"`
	Foreign     map[string]int    `json:"foreign"`
	StepCap     int               `json:"step_cap"`
	Known       map[string]int    `json:"known"`
	KnownMsg    map[string]string `json:"known_msg"`
	Violations  []foundViolation  `json:"violations"`
	Samples     []json.RawMessage `json:"samples"`
	Probes      []uint32          `json:"probes"`
	Lin         map[string]int    `json:"lin"`
	Strategies  map[string]int    `json:"strategies"`
	RaceReports []json.RawMessage `json:"race_reports"`
}

type foundViolation struct {
	Prop   string `json:"prop"`
	Rule   string `json:"rule"`
	Sig    string `json:"sig"`
	Msg    string `json:"msg"`
	Step   int    `json:"step"`
	Run    int    `json:"run"`
	Seed   uint64 `json:"run_seed"`
	Replay string `json:"replay"`
}

type knownEntry struct {
	Status    string `json:"status"`
	Property  string `json:"property"`
	Signature string `json:"signature"`
	What      string `json:"what"`
	Commit    string `json:"commit,omitempty"`
}

func loadKnown() []knownEntry {
	b, err := os.ReadFile(filepath.Join(verifDir, "known_findings.jsonl"))
	if err != nil {
		return nil
	}
	var out []knownEntry
	for _, l := range strings.Split(string(b), "\n") {
		l = strings.TrimSpace(l)
		if l == "" {
			continue
		}
		var e knownEntry
		if json.Unmarshal([]byte(l), &e) == nil {
			out = append(out, e)
		}
	}
	return out
}

var claimed = map[string]string{ // property -> level
	"C03": "exploration", "C04": "exploration", "C05": "exploration", "C06": "exploration", "C09": "exploration",
	"C10": "fault_enumeration", "C11": "exploration", "C12": "exploration", "C13": "fault_enumeration",
	"C14": "exploration", "C15": "exploration", "C16": "exploration", "C18": "exploration", "C19": "exploration",
	"C20": "exploration",
}

func cmdCheck(args []string) {
	if len(args) < 1 {
		die(2, "usage: verif check <ID> [--tier quick|thorough]")
	}
	prop := args[0]
	tier := os.Getenv("VERIF_TIER")
	for i := 1; i < len(args); i++ {
		if args[i] == "--tier" && i+1 < len(args) {
			tier = args[i+1]
			i++
		}
	}
	if tier != "thorough" {
		tier = "quick"
	}
	level, ok := claimed[prop]
	if !ok {
		die(2, "property %s is not claimed by this machinery (see MANIFEST.json not_applicable)", prop)
	}
	seed := int64(1)
	if v := os.Getenv("VERIF_SEED"); v != "" {
		if n, err := strconv.ParseInt(v, 10, 64); err == nil {
			seed = n
		}
	}
	fmt.Printf("VERIF_SEED=%d property=%s tier=%s\n", seed, prop, tier)
	t0 := time.Now()
	mode := "det"
	if prop == "C18" {
		mode = "race"
	}
	bi := ensureBinary(mode)
	buildS := time.Since(t0).Seconds()
	spec := specFor(prop, tier)

	// enumeration size
	enumN := queryEnum(bi.Bin, prop, tier)

	type job struct {
		seed                int64
		from, count         int
		enumFrom, enumCount int
	}
	var jobs []job
	for e := 0; e < enumN; e += spec.Batch {
		jobs = append(jobs, job{seed: seed, enumFrom: e, enumCount: spec.Batch, from: 0, count: 0})
	}
	perSeed := spec.Runs / spec.Seeds
	for s := 0; s < spec.Seeds; s++ {
		sd := seed
		if s > 0 {
			sd = seed*1000003 + int64(s)
		}
		for f := 0; f < perSeed; f += spec.Batch {
			jobs = append(jobs, job{seed: sd, from: f, count: spec.Batch, enumFrom: -1})
		}
	}
	// interleave: enumeration first, then random batches round-robin over seeds (already so)

	workers := runtime.NumCPU()
	if workers > 16 {
		workers = 16
	}
	if v := os.Getenv("VERIF_WORKERS"); v != "" {
		if n, err := strconv.Atoi(v); err == nil && n > 0 {
			workers = n
		}
	}
	tmp, err := os.MkdirTemp("", "verif-run-")
	if err != nil {
		die(2, "mktemp: %v", err)
	}
	defer os.RemoveAll(tmp)
	cleanup = append(cleanup, func() { os.RemoveAll(tmp) })

	var (
		mu          sync.Mutex
		outs        []*batchOut
		infra       []string
		stop        bool
		next        int
		deadline    = time.Now().Add(spec.WallCap)
		skipped     int
		confirmed   []foundViolation
		unconfirmed []foundViolation
		retries     int
		retryNotes  []string
	)
	var wg sync.WaitGroup
	for wkr := 0; wkr < workers; wkr++ {
		wg.Add(1)
		go func(wkr int) {
			defer wg.Done()
			for {
				mu.Lock()
				if stop || next >= len(jobs) {
					mu.Unlock()
					return
				}
				j := jobs[next]
				isEnum := j.enumFrom >= 0
				if !isEnum && time.Now().After(deadline) {
					skipped += len(jobs) - next
					next = len(jobs)
					mu.Unlock()
					return
				}
				next++
				mu.Unlock()
				outPath := filepath.Join(tmp, fmt.Sprintf("out-%d-%d-%d-%d.json", wkr, j.seed, j.from, j.enumFrom))
				cmd := exec.Command(bi.Bin, "-test.run", "^TestWorker$", "-test.timeout", "6h")
				cmd.Dir = verifDir
				cmd.Env = append(os.Environ(),
					"VERIF_MODE=batch", "VERIF_PROP="+prop, "VERIF_TIER="+tier,
					fmt.Sprintf("VERIF_SEED=%d", j.seed), fmt.Sprintf("VERIF_FROM=%d", j.from), fmt.Sprintf("VERIF_COUNT=%d", j.count),
					fmt.Sprintf("VERIF_ENUM_FROM=%d", j.enumFrom), fmt.Sprintf("VERIF_ENUM_COUNT=%d", j.enumCount),
					"VERIF_OUT="+outPath, "VERIF_KNOWN="+filepath.Join(verifDir, "known_findings.jsonl"),
					"VERIF_REPLAY_DIR="+filepath.Join(verifDir, "replays"),
					"GORACE=halt_on_error=0 exitcode=0 log_path="+filepath.Join(tmp, fmt.Sprintf("race-%d", wkr)),
				)
				b, err := cmd.CombinedOutput()
				// A worker that dies without a result (a Go runtime fatal error was seen about once per
				// million runs, apparently from blocked goroutines left behind in finished synctest bubbles) says
				// nothing about the property: the batch is deterministic, so it is simply executed again in a
				// fresh process, at most twice.
				for attempt := 0; err != nil && attempt < 2; attempt++ {
					if _, serr := os.Stat(outPath); serr == nil {
						break
					}
					mu.Lock()
					retries++
					retryNotes = append(retryNotes, firstLine(string(b)))
					mu.Unlock()
					cmd2 := exec.Command(bi.Bin, "-test.run", "^TestWorker$", "-test.timeout", "6h")
					cmd2.Dir = verifDir
					cmd2.Env = cmd.Env
					b, err = cmd2.CombinedOutput()
				}
				mu.Lock()
				if err != nil {
					infra = append(infra, fmt.Sprintf("worker seed=%d from=%d enum=%d: %v\n%s", j.seed, j.from, j.enumFrom, err, tail(string(b), 4000)))
					stop = true
					mu.Unlock()
					return
				}
				ob, rerr := os.ReadFile(outPath)
				var bo batchOut
				if rerr != nil || json.Unmarshal(ob, &bo) != nil {
					infra = append(infra, fmt.Sprintf("worker seed=%d from=%d produced no result: %v\n%s", j.seed, j.from, rerr, tail(string(b), 2000)))
					stop = true
					mu.Unlock()
					return
				}
				os.Remove(outPath)
				outs = append(outs, &bo)
				mu.Unlock()
				// A reported violation is confirmed at once by replaying its file in a fresh process. Only a
				// confirmed one ends the search: one that does not reproduce (the code under test keeps state the
				// simulator does not own, or the machinery is at fault) is counted and shown, and the search goes on.
				sort.Slice(bo.Violations, func(i, j int) bool { return bo.Violations[i].Run < bo.Violations[j].Run })
				for _, v := range bo.Violations {
					mu.Lock()
					done := stop
					mu.Unlock()
					if done {
						break
					}
					ok, outText := replayFile(bi.Bin, v.Replay)
					if !ok {
						ok, outText = replayFile(bi.Bin, v.Replay)
					}
					mu.Lock()
					if ok {
						confirmed = append(confirmed, v)
						stop = true
						mu.Unlock()
						break
					}
					if len(unconfirmed) < 5 {
						fmt.Fprintf(os.Stderr, "UNCONFIRMED: replay of %s did not reproduce rule %s:\n%s\n", v.Replay, v.Rule, tail(outText, 1500))
					}
					unconfirmed = append(unconfirmed, v)
					mu.Unlock()
				}
			}
		}(wkr)
	}
	wg.Wait()
	if len(infra) > 0 {
		for _, s := range infra {
			fmt.Fprintln(os.Stderr, s)
		}
		if len(confirmed) == 0 {
			die(2, "infrastructure failure while checking %s (no verdict)", prop)
		}
		// A violation that was found and reproduced from its replay file stands on its own: trouble in another
		// batch (a run that wedged the simulator, for instance) does not take it back.
		fmt.Fprintf(os.Stderr, "note: %d worker batch(es) of this check ended without a result; the confirmed violation is reported all the same\n", len(infra))
	}

	// aggregate
	agg := aggregate(outs)
	wall := time.Since(t0).Seconds()
	known := loadKnown()
	exit := 0
	sort.Slice(confirmed, func(i, j int) bool { return confirmed[i].Run < confirmed[j].Run })
	if len(confirmed) > 1 {
		confirmed = confirmed[:1] // one is enough; report the first
	}
	agg.Unconfirmed = len(unconfirmed)
	for _, k := range known {
		if k.Property == prop && k.Status == "known" {
			n := agg.Known[k.Signature]
			fmt.Printf("KNOWN-FINDING: property=%s %s [%s] (observed in %d runs of this check)\n", prop, k.What, k.Signature, n)
		}
	}
	for _, v := range confirmed {
		fmt.Printf("violation: rule=%s run=%d seed=%d\n  %s\n", v.Rule, v.Run, v.Seed, v.Msg)
		fmt.Printf("VIOLATION property=%s replay=%s\n", prop, v.Replay)
		exit = 1
	}
	truncated := 0
	for _, n := range agg.Foreign {
		truncated += n
	}
	if agg.Runs > 0 && truncated*4 > agg.Runs {
		fmt.Printf("WARNING coverage-collapsed: %d of %d runs were cut short by events owned by other properties %v\n", truncated, agg.Runs, agg.Foreign)
	}
	agg.Retries, agg.RetryNotes = retries, retryNotes
	writeEvidence(prop, tier, level, seed, agg, wall, buildS, len(confirmed), skipped, bi, workers, spec)
	fmt.Printf("%s %s: runs=%d (enumerated %d) steps=%d simulated=%s distinct_schedules=%d interesting=%d foreign=%v step_cap=%d wall=%.1fs (build %.1fs) -> exit %d\n",
		prop, tier, agg.Runs, agg.Enumerated, agg.Steps, time.Duration(agg.SimNs).Round(time.Second), len(agg.sched), len(agg.ints), agg.Foreign, agg.StepCap, wall, buildS, exit)
	os.Exit(exit)
}

func firstLine(s string) string {
	for _, l := range strings.Split(s, "\n") {
		if strings.TrimSpace(l) != "" {
			if len(l) > 200 {
				l = l[:200]
			}
			return l
		}
	}
	return ""
}

func tail(s string, n int) string {
	if len(s) > n {
		// keep the beginning too: a runtime "fatal error" line is at the top of a long goroutine dump
		h := n / 3
		return s[:h] + "\n...[" + strconv.Itoa(len(s)-n) + " bytes omitted]...\n" + s[len(s)-(n-h):]
	}
	return s
}

func queryEnum(bin, prop, tier string) int {
	cmd := exec.Command(bin, "-test.run", "^TestEnumCount$")
	cmd.Env = append(os.Environ(), "VERIF_PROP="+prop, "VERIF_TIER="+tier)
	b, err := cmd.CombinedOutput()
	if err != nil {
		die(2, "enum query failed: %v\n%s", err, b)
	}
	for _, l := range strings.Split(string(b), "\n") {
		if strings.HasPrefix(l, "ENUM ") {
			n, _ := strconv.Atoi(strings.TrimSpace(l[5:]))
			return n
		}
	}
	return 0
}

func replayFile(bin, path string) (bool, string) {
	cmd := exec.Command(bin, "-test.run", "^TestWorker$")
	cmd.Dir = verifDir
	rl, _ := os.MkdirTemp("", "verif-replay-")
	defer os.RemoveAll(rl)
	cmd.Env = append(os.Environ(), "VERIF_MODE=replay", "VERIF_REPLAY="+path, "GORACE=halt_on_error=0 exitcode=0 log_path="+filepath.Join(rl, "race"))
	b, _ := cmd.CombinedOutput()
	return strings.Contains(string(b), "REPRODUCED property=") && !strings.Contains(string(b), "NOT-REPRODUCED"), string(b)
}

type aggT struct {
	Runs, Enumerated, StepCap, Interesting int
	Steps, SimNs, WorkerMs                 int64
	Faults, Rare, Foreign, Known, Lin      map[string]int
	Strategies                             map[string]int
	KnownMsg                               map[string]string
	sched, plans, ints                     map[uint64]bool
	Samples                                []json.RawMessage
	Probes                                 []uint64
	RaceReports                            []json.RawMessage
	Unconfirmed                            int
	Retries                                int
	RetryNotes                             []string
}

func aggregate(outs []*batchOut) *aggT {
	a := &aggT{Faults: map[string]int{}, Rare: map[string]int{}, Foreign: map[string]int{}, Known: map[string]int{}, Lin: map[string]int{},
		Strategies: map[string]int{}, KnownMsg: map[string]string{}, sched: map[uint64]bool{}, plans: map[uint64]bool{}, ints: map[uint64]bool{}}
	for _, o := range outs {
		a.Runs += o.Runs
		a.Enumerated += o.Enumerated
		a.StepCap += o.StepCap
		a.Interesting += o.Interesting
		a.Steps += o.Steps
		a.SimNs += o.SimNs
		a.WorkerMs += o.WallMs
		for k, v := range o.Faults {
			a.Faults[k] += v
		}
		for k, v := range o.Rare {
			a.Rare[k] += v
		}
		for k, v := range o.Foreign {
			a.Foreign[k] += v
		}
		for k, v := range o.Known {
			a.Known[k] += v
		}
		for k, v := range o.KnownMsg {
			a.KnownMsg[k] = v
		}
		for k, v := range o.Lin {
			a.Lin[k] += v
		}
		for k, v := range o.Strategies {
			a.Strategies[k] += v
		}
		for _, h := range o.SchedHashes {
			a.sched[h] = true
		}
		for _, h := range o.PlanHashes {
			a.plans[h] = true
		}
		for _, h := range o.IntHashes {
			a.ints[h] = true
		}
		if len(a.Samples) < 4 {
			a.Samples = append(a.Samples, o.Samples...)
		}
		if len(o.Probes) > len(a.Probes) {
			a.Probes = append(a.Probes, make([]uint64, len(o.Probes)-len(a.Probes))...)
		}
		for i, v := range o.Probes {
			a.Probes[i] += uint64(v)
		}
		a.RaceReports = append(a.RaceReports, o.RaceReports...)
	}
	if len(a.Samples) > 4 {
		a.Samples = a.Samples[:4]
	}
	return a
}

type probeInfo struct {
	ID   int    `json:"id"`
	File string `json:"file"`
	Line int    `json:"line"`
	Func string `json:"func"`
	Kind string `json:"kind"`
}

func probeCoverage(bi *buildInfo, hits []uint64) map[string]any {
	out := map[string]any{}
	for _, pkg := range []string{"service", "attachment"} {
		b, err := os.ReadFile(filepath.Join(bi.Dir, pkg+".meta.json"))
		if err != nil {
			continue
		}
		var m struct {
			Probes             []probeInfo    `json:"probes"`
			Stats              map[string]int `json:"stats"`
			UncontrolledSelect []string       `json:"uncontrolled_select"`
		}
		if json.Unmarshal(b, &m) != nil {
			continue
		}
		hit := 0
		var never []string
		for _, p := range m.Probes {
			if p.ID < len(hits) && hits[p.ID] > 0 {
				hit++
			} else if len(never) < 40 {
				never = append(never, fmt.Sprintf("%s:%d %s (%s)", p.File, p.Line, p.Func, p.Kind))
			}
		}
		out[pkg] = map[string]any{"blocks": len(m.Probes), "blocks_hit": hit, "never_hit": never, "rewrites": m.Stats, "uncontrolled_select": m.UncontrolledSelect}
	}
	return out
}

func writeEvidence(prop, tier, level string, seed int64, a *aggT, wall, buildS float64, violations, skipped int, bi *buildInfo, workers int, spec tierSpec) {
	runWall := wall - buildS
	if runWall < 0.001 {
		runWall = 0.001
	}
	samples := []any{}
	for _, s := range a.Samples {
		var v any
		if json.Unmarshal(s, &v) == nil {
			samples = append(samples, v)
		}
	}
	if len(samples) == 0 {
		samples = append(samples, map[string]any{"note": "no run completed"})
	}
	distinct := len(a.ints)
	cov := map[string]any{
		"evaluations":                         a.Runs,
		"distinct_nontrivial":                 distinct,
		"rule":                                ruleText[prop],
		"samples":                             samples,
		"enumerated_runs":                     a.Enumerated,
		"scheduler_steps":                     a.Steps,
		"simulated_seconds":                   float64(a.SimNs) / 1e9,
		"runs_per_hour":                       float64(a.Runs) / runWall * 3600,
		"seeds_per_hour":                      float64(a.Runs) / runWall * 3600,
		"distinct_schedules":                  len(a.sched),
		"distinct_plans":                      len(a.plans),
		"fault_fires":                         a.Faults,
		"rare_condition_hits":                 a.Rare,
		"strategies":                          a.Strategies,
		"foreign_events_truncated_runs":       a.Foreign,
		"inconclusive_step_cap":               a.StepCap,
		"known_findings_observed":             a.Known,
		"batches_skipped_by_wall_cap":         skipped,
		"violations_not_reproduced_by_replay": a.Unconfirmed,
		"worker_batches_re_executed":          a.Retries,
		"worker_failures_before_retry":        a.RetryNotes,
		"workers":                             workers,
		"tree_hash":                           bi.Hash,
		"block_coverage":                      probeCoverage(bi, a.Probes),
		"components": map[string]string{
			"service":    "real code (rewritten copy of /repo/service: yields, select/go/map-range seams)",
			"attachment": "real code (rewritten copy of /repo/attachment)",
			"protocol":   "real code, unmodified (/repo/protocol)",
			"shared":     "real code, unmodified (/repo/shared)",
			"terminal":   "real code, unmodified (/repo/terminal)",
			"net":        "stub: simnet (in-memory half-pipes, plan-decided segmentation, FIN/RST/write errors)",
			"os":         "stub: simfs (in-memory tree, Linux path resolution) - attachment only",
			"clock":      "stub: testing/synctest fake clock",
			"scheduler":  "stub: simrt token scheduler (seeded choice of the next goroutine / select case / map order)",
		},
	}
	if len(a.Lin) > 0 {
		cov["linearizability"] = a.Lin
	}
	if len(a.RaceReports) > 0 || prop == "C18" {
		cov["race_reports_filtered_in"] = len(a.RaceReports)
	}
	ev := map[string]any{
		"property_id": prop,
		"tier":        tier,
		"seed":        seed,
		"level":       level,
		"coverage":    cov,
		"assumptions": []string{
			"the AST rewriter preserves the semantics of service/attachment (pass-through mode runs the package's own tests in selftest)",
			"simnet models what the servers can observe of TCP (no back-pressure, no keep-alive)",
			"application compiled with go1.26.8 (testing/synctest) instead of the project's 1.23.x",
			"reference codec/model transcribed from JT/T 808 by hand",
			"sampled, not exhaustive: schedules, segmentations and inputs are drawn from seeded generators",
		},
		"wall_s":     wall,
		"violations": violations,
	}
	b, _ := json.MarshalIndent(ev, "", " ")
	evDir := filepath.Join(verifDir, "evidence")
	if d := os.Getenv("VERIF_EVIDENCE_DIR"); d != "" {
		evDir = d // used when a seeded change is being evaluated: /verif/evidence stays that of the real tree
	}
	os.MkdirAll(evDir, 0o755)
	if err := os.WriteFile(filepath.Join(evDir, prop+".json"), b, 0o644); err != nil {
		die(2, "writing evidence: %v", err)
	}
}

var ruleText = map[string]string{
	"C03": "one evaluation = one simulated run of 1-2 connections with parse-everything handlers (4-34 bodies from well-formed / inconsistent / mutated pools, reused receivers, random segmentation); non-trivial = at least four handler parses were compared differentially; distinct = distinct (plan hash, schedule hash) pairs",
	"C04": "one evaluation = one simulated run (plan = frames + segmentation, schedule = seeded picks) or one enumerated cut position; non-trivial = some frame is split across reads or shares a read with another frame; distinct = distinct (plan hash, schedule hash) pairs",
	"C05": "one evaluation = one simulated run with 1-4 sub-packaged transfers (permuted, duplicated, impossible numbers, interleaved); non-trivial = a transfer of at least two packets was delivered complete; distinct = distinct (plan hash, schedule hash) pairs",
	"C06": "one evaluation = one simulated conversation (1-4 connections) or one serial wrap-around run; non-trivial = the server wrote at least two frames; distinct = distinct (plan hash, schedule hash) pairs",
	"C09": "one evaluation = one simulated run with every delivered message retained; non-trivial = some message stayed retained across at least one later read on its connection; distinct = distinct (plan hash, schedule hash) pairs",
	"C10": "one evaluation = one simulated run of both servers with hostile and well-behaved connections, or one enumerated fault point (FIN/RST of the hostile connection at step k of a FIFO baseline); non-trivial = a hostile connection delivered data or closed while a well-behaved one was being served; distinct = distinct (plan hash, schedule hash) pairs",
	"C11": "one evaluation = one simulated history of joins, leaves, reconnects and sends over 2-3 keys, checked with porcupine; non-trivial = two connections contended for one key (a join was refused); distinct = distinct (plan hash, schedule hash) pairs",
	"C12": "one evaluation = one simulated run with 1-6 concurrent SendActiveMessage calls against reactive terminal models; non-trivial = at least two calls were written and returned; distinct = distinct (plan hash, schedule hash) pairs",
	"C13": "one evaluation = one simulated run with a disconnect at a seeded point, or one enumerated fault point (FIN/RST/write failure at step k of a FIFO baseline); non-trivial = the disconnect happened while at least one call was in flight; distinct = distinct (plan hash, schedule hash) pairs",
	"C14": "one evaluation = one simulated run on the fake clock with missing packets, idle gaps around 5 s / 60 s and resupply; non-trivial = the server wrote at least one 0x8003; distinct = distinct (plan hash, schedule hash) pairs",
	"C15": "one evaluation = one simulated attachment session set (1-2 connections, 1-4 files, permuted and re-sent data packets, random stream cuts); non-trivial = at least one file was reported complete; distinct = distinct (plan hash, schedule hash) pairs",
	"C16": "one evaluation = one simulated attachment session with withheld data packets and one or two resupply rounds; non-trivial = at least one 0x9212 asked for retransmission; distinct = distinct (plan hash, schedule hash) pairs",
	"C18": "one evaluation = one seeded deterministic schedule of a C06/C09/C11/C12/C13/shared-header scenario executed under the race detector; non-trivial = at least one connection and more than 50 scheduler steps; distinct = distinct (plan hash, schedule hash) pairs",
	"C19": "one evaluation = one simulated upload set with hostile announced names against the default file handler on simfs; non-trivial = the server created at least one file other than its log; distinct = distinct (plan hash, schedule hash) pairs",
	"C20": "one evaluation = one simulated run in which 1-20 frames generated by the terminal simulator per connection are answered by the live server; non-trivial = the server wrote at least two replies that were compared with ExpectedReply; distinct = distinct (plan hash, schedule hash) pairs",
}

func cmdReplay(args []string) {
	if len(args) < 1 {
		die(2, "usage: verif replay <file>")
	}
	b, err := os.ReadFile(args[0])
	if err != nil {
		die(2, "%v", err)
	}
	var rf struct {
		Property string `json:"property"`
	}
	if json.Unmarshal(b, &rf) != nil || rf.Property == "" {
		die(2, "%s is not a replay file", args[0])
	}
	mode := "det"
	if rf.Property == "C18" {
		mode = "race"
	}
	bi := ensureBinary(mode)
	ok, out := replayFile(bi.Bin, args[0])
	fmt.Print(out)
	if ok {
		fmt.Printf("VIOLATION property=%s replay=%s\n", rf.Property, args[0])
		os.Exit(1)
	}
	fmt.Println("not reproduced on this tree")
	os.Exit(0)
}

func cmdSelftest(args []string) {
	full := len(args) > 0 && args[0] == "--full"
	if err := selftest(full); err != nil {
		die(2, "self-test failed: %v", err)
	}
	if m, _ := filepath.Glob(filepath.Join(os.TempDir(), "verif-selftest-race*")); len(m) > 0 {
		for _, f := range m {
			os.Remove(f)
		}
	}
	fmt.Println("selftest: ok")
}

// rewriterSelftest runs the repository's own service tests against the rewritten copy with the simulator in
// pass-through mode: the rewrites must not change what the package does.
func rewriterSelftest() error {
	instr := ensureTools()
	tmp, err := os.MkdirTemp("", "verif-rwtest-")
	if err != nil {
		return err
	}
	defer os.RemoveAll(tmp)
	env := goEnv()
	simDir := filepath.Join(verifDir, "sim")
	if out, err := run(simDir, env, instr, "-src", filepath.Join(repoDir, "service"), "-dst", filepath.Join(tmp, "service"), "-meta", filepath.Join(tmp, "service.json")); err != nil {
		return fmt.Errorf("instrument: %v\n%s", err, out)
	}
	rep := map[string]string{}
	ents, _ := os.ReadDir(filepath.Join(tmp, "service"))
	for _, e := range ents {
		rep[filepath.Join(simDir, "gen", "service", e.Name())] = filepath.Join(tmp, "service", e.Name())
	}
	tests, _ := filepath.Glob(filepath.Join(repoDir, "service", "*_test.go"))
	for _, t := range tests {
		rep[filepath.Join(simDir, "gen", "service", filepath.Base(t))] = t
	}
	ob, _ := json.Marshal(map[string]any{"Replace": rep})
	overlay := filepath.Join(tmp, "overlay.json")
	os.WriteFile(overlay, ob, 0o644)
	bin := filepath.Join(tmp, "service.test")
	if out, err := run(simDir, env, goExe, "test", "-c", "-vet=off", "-overlay", overlay, "-o", bin, "./gen/service"); err != nil {
		return fmt.Errorf("building service tests against the rewritten copy failed: %v\n%s", err, out)
	}
	out, err := run(filepath.Join(repoDir, "service"), env, bin, "-test.count=1")
	if err != nil {
		return fmt.Errorf("service tests against the rewritten copy failed: %v\n%s", err, out)
	}
	fmt.Printf("selftest: rewriter: service's own tests pass against the rewritten copy (pass-through mode): %s", lastLine(out))
	return nil
}

func lastLine(s string) string {
	ls := strings.Split(strings.TrimSpace(s), "\n")
	return ls[len(ls)-1] + "\n"
}

// selftest: determinism of the simulator (same seed -> same event-log hash across processes and GOMAXPROCS).
// fidelitySelftest compares the simulated servers' replies with those of the unmodified packages over real
// loopback TCP (validates simnet and the rewriter; never used for a verdict).
func fidelitySelftest(bin string, n int) error {
	cmd := exec.Command(bin, "-test.run", "^TestFidelity$")
	cmd.Env = append(os.Environ(), "VERIF_FIDELITY=1", fmt.Sprintf("VERIF_COUNT=%d", n))
	b, err := cmd.CombinedOutput()
	for _, l := range strings.Split(string(b), "\n") {
		if strings.HasPrefix(l, "FIDELITY ") {
			fmt.Println("selftest: fidelity (simnet vs unmodified packages over loopback TCP):", strings.TrimPrefix(l, "FIDELITY "))
		}
	}
	if err != nil {
		return fmt.Errorf("fidelity: %v\n%s", err, tail(string(b), 1500))
	}
	return nil
}

func selftest(full bool) error {
	if err := rewriterSelftest(); err != nil {
		return err
	}
	bi := ensureBinary("det")
	nfid := 10
	if full {
		nfid = 60
	}
	if err := fidelitySelftest(bi.Bin, nfid); err != nil {
		if full {
			return err
		}
		// the short self-test runs inside setup_cmd: loopback sockets may be unavailable there
		fmt.Println("selftest: fidelity comparison not completed (not fatal in the short self-test):", strings.SplitN(err.Error(), "\n", 2)[0])
	}
	propsList := []string{"C04"}
	count, reps := 40, 2
	gmps := []string{"1", "16"}
	if full {
		for p := range claimed {
			if p != "C18" && p != "C04" {
				propsList = append(propsList, p)
			}
		}
		sort.Strings(propsList)
		count, reps = 64, 10
		gmps = []string{"1", "4", "16"}
	}
	if full {
		propsList = append(propsList, "C18")
	}
	for _, prop := range propsList {
		bin := bi.Bin
		cnt, rp := count, reps
		if prop == "C18" {
			// the same plans and schedules must replay identically in the -race build
			bin = ensureBinary("race").Bin
			cnt, rp = 24, 3
		}
		count, reps := cnt, rp
		var ref string
		var mu sync.Mutex
		var firstErr error
		var wg sync.WaitGroup
		sem := make(chan struct{}, 16)
		for _, g := range gmps {
			for r := 0; r < reps; r++ {
				wg.Add(1)
				go func(g string) {
					defer wg.Done()
					sem <- struct{}{}
					defer func() { <-sem }()
					cmd := exec.Command(bin, "-test.run", "^TestWorker$")
					cmd.Env = append(os.Environ(), "GORACE=halt_on_error=0 exitcode=0 log_path="+filepath.Join(os.TempDir(), "verif-selftest-race"), "GOMAXPROCS="+g, "VERIF_MODE=dethash", "VERIF_PROP="+prop, "VERIF_TIER=quick", "VERIF_SEED=424242", "VERIF_FROM=0", fmt.Sprintf("VERIF_COUNT=%d", count))
					b, err := cmd.CombinedOutput()
					var lines []string
					for _, l := range strings.Split(string(b), "\n") {
						if strings.HasPrefix(l, "DET ") {
							lines = append(lines, l)
						}
					}
					mu.Lock()
					defer mu.Unlock()
					if err != nil && firstErr == nil {
						firstErr = fmt.Errorf("%s GOMAXPROCS=%s: %v\n%s", prop, g, err, tail(string(b), 1500))
						return
					}
					s := strings.Join(lines, "\n")
					if len(lines) != count && firstErr == nil {
						firstErr = fmt.Errorf("%s: expected %d DET lines, got %d", prop, count, len(lines))
					}
					if ref == "" {
						ref = s
					} else if s != ref && firstErr == nil {
						firstErr = fmt.Errorf("%s: event-log hashes differ between executions of the same seeds (GOMAXPROCS=%s)", prop, g)
					}
				}(g)
			}
		}
		wg.Wait()
		if firstErr != nil {
			return firstErr
		}
		fmt.Printf("selftest: determinism %s: %d seeds x %d executions identical\n", prop, count, reps*len(gmps))
	}
	return nil
}
