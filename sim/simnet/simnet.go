// Package simnet is the in-memory stand-in for package net that the rewritten copies of service and
// attachment are compiled against. A connection is two half-pipes of chunks; the environment decides what a
// chunk is, so the partition of the byte stream into Read results is exactly the plan's segmentation.
package simnet

import (
	"errors"
	"io"
	stdnet "net"
	"syscall"
	"time"

	"verifsim/simrt"
)

var ErrClosed = stdnet.ErrClosed

type (
	Addr     = stdnet.Addr
	TCPAddr  = stdnet.TCPAddr
	Conn     = stdnet.Conn
	Listener = stdnet.Listener
	OpError  = stdnet.OpError
	Error    = stdnet.Error
	IP       = stdnet.IP
)

//go:norace
func ResolveTCPAddr(network, address string) (*TCPAddr, error) {
	return stdnet.ResolveTCPAddr(network, address)
}

// ---- listeners ----

type TCPListener struct {
	addr    string
	backlog []*TCPConn
	wake    chan struct{}
	closed  bool
}

var (
	listeners []*TCPListener
	// LastAccepted is the peer of the connection most recently returned by an accept call.
	LastAccepted *Peer
	// Hooks, installed by the harness for one run.
	OnServerWrite func(p *Peer, b []byte, err error)
	OnServerClose func(p *Peer)
	OnServerRead  func(p *Peer, n int, err error)
	nextID        int
)

// AcceptFailures is the number of accept calls that still fail transiently (set by the harness from the plan);
// AcceptFailed counts the failures that happened.
var AcceptFailures, AcceptFailed int

var errTooManyFiles = errors.New("accept4: too many open files")

// ListenFails makes every listen call fail (address already in use); ListenFailed counts the failures.
var ListenFails bool
var ListenFailed int

var errAddrInUse = errors.New("bind: address already in use")

// Reset clears all simulated network state (once per run, inside the bubble).
//
//go:norace
func Reset() {
	AcceptFailures, AcceptFailed = 0, 0
	ListenFails, ListenFailed = false, 0
	listeners = nil
	LastAccepted = nil
	OnServerWrite, OnServerClose, OnServerRead = nil, nil, nil
	nextID = 0
}

//go:norace
func listen(addr string) *TCPListener {
	l := &TCPListener{addr: addr, wake: make(chan struct{}, 1)}
	listeners = append(listeners, l)
	return l
}

//go:norace
func ListenTCP(network string, laddr *TCPAddr) (*TCPListener, error) {
	a := ""
	if laddr != nil {
		a = laddr.String()
	}
	if ListenFails {
		ListenFailed++
		return nil, &OpError{Op: "listen", Net: "tcp", Err: errAddrInUse}
	}
	return listen(a), nil
}

//go:norace
func Listen(network, address string) (Listener, error) { return listen(address), nil }

//go:norace
func (l *TCPListener) AcceptTCP() (*TCPConn, error) {
	simrt.Yield("net.accept:pre")
	for {
		simrt.RaceOff()
		if len(l.backlog) > 0 && AcceptFailures > 0 {
			// a transient accept failure (EMFILE-like): the pending connection stays in the backlog
			AcceptFailures--
			AcceptFailed++
			simrt.RaceOn()
			return nil, &OpError{Op: "accept", Net: "tcp", Err: errTooManyFiles}
		}
		if len(l.backlog) > 0 {
			c := l.backlog[0]
			l.backlog = l.backlog[1:]
			LastAccepted = c.peer
			c.peer.Accepted = true
			simrt.RaceOn()
			return c, nil
		}
		<-l.wake
		simrt.RaceOn()
		simrt.Yield("net.accept:woke")
	}
}

//go:norace
func (l *TCPListener) Accept() (Conn, error) { return l.AcceptTCP() }

//go:norace
func (l *TCPListener) Close() error { l.closed = true; return nil }

//go:norace
func (l *TCPListener) Addr() Addr { return &TCPAddr{} }

// Listening reports whether a server listens on addr.
//
//go:norace
func Listening(addr string) bool { return findListener(addr) != nil }

//go:norace
func findListener(addr string) *TCPListener {
	for _, l := range listeners {
		if l.addr == addr {
			return l
		}
	}
	return nil
}

// ---- connections ----

type half struct {
	chunks [][]byte
	fin    bool // writer side closed cleanly: reader sees EOF after pending data
	rst    bool // reset: reader sees an error at once
	wake   chan struct{}
}

// TCPConn is the server's end.
type TCPConn struct {
	peer      *Peer
	in        *half // terminal -> server
	closed    bool  // closed by the server
	failWrite bool
}

// Peer is the environment's handle on a connection (the terminal's end).
type Peer struct {
	ID        int
	Label     string
	srv       *TCPConn
	Out       [][]byte // what the server wrote, one element per Write
	Accepted  bool
	SrvClosed bool
	// WriteErrAfterClose: server writes fail once the peer has closed or reset
	WriteErrAfterClose bool
	peerGone           bool
	User               any
}

// EnvDial creates a connection to the listener at addr and queues it for accept. Environment side.
//
//go:norace
func EnvDial(addr, label string) *Peer {
	simrt.RaceOff()
	defer simrt.RaceOn()
	l := findListener(addr)
	if l == nil {
		return nil
	}
	nextID++
	p := &Peer{ID: nextID, Label: label, WriteErrAfterClose: true}
	c := &TCPConn{peer: p, in: &half{wake: make(chan struct{}, 1)}}
	p.srv = c
	l.backlog = append(l.backlog, c)
	select {
	case l.wake <- struct{}{}:
	default:
	}
	return p
}

//go:norace
func (h *half) signal() {
	select {
	case h.wake <- struct{}{}:
	default:
	}
}

// Deliver makes b the result of one future Read (environment side).
//
//go:norace
func (p *Peer) Deliver(b []byte) {
	simrt.RaceOff()
	defer simrt.RaceOn()
	if p.peerGone || len(b) == 0 {
		return
	}
	p.srv.in.chunks = append(p.srv.in.chunks, append([]byte(nil), b...))
	p.srv.in.signal()
}

// Fin closes the terminal's end cleanly: pending data, then EOF.
//
//go:norace
func (p *Peer) Fin() {
	simrt.RaceOff()
	defer simrt.RaceOn()
	p.peerGone = true
	p.srv.in.fin = true
	if p.WriteErrAfterClose {
		p.srv.failWrite = true
	}
	p.srv.in.signal()
}

// Rst resets the connection: pending data is discarded, Read fails with ECONNRESET.
//
//go:norace
func (p *Peer) Rst() {
	simrt.RaceOff()
	defer simrt.RaceOn()
	p.peerGone = true
	p.srv.in.rst = true
	p.srv.in.chunks = nil
	p.srv.failWrite = true
	p.srv.in.signal()
}

// FailWrites makes every later server Write fail (a reset that the reader has not noticed yet).
//
//go:norace
func (p *Peer) FailWrites() {
	p.srv.failWrite = true
}

// Gone reports whether the terminal's end has been closed or reset.
//
//go:norace
func (p *Peer) Gone() bool { return p.peerGone }

// PendingIn is the number of chunks delivered but not yet read by the server.
//
//go:norace
func (p *Peer) PendingIn() int { return len(p.srv.in.chunks) }

//go:norace
func (c *TCPConn) Read(b []byte) (int, error) {
	simrt.Yield("net.read:pre")
	for {
		simrt.RaceOff()
		if c.closed {
			simrt.RaceOn()
			err := &OpError{Op: "read", Net: "tcp", Err: ErrClosed}
			hookRead(c.peer, 0, err)
			return 0, err
		}
		if c.in.rst {
			simrt.RaceOn()
			err := &OpError{Op: "read", Net: "tcp", Err: syscall.ECONNRESET}
			hookRead(c.peer, 0, err)
			return 0, err
		}
		if len(c.in.chunks) > 0 {
			src := c.in.chunks[0]
			simrt.RaceOn()
			n := rcopy(b, src) // visible, attributed write into the caller's buffer
			simrt.RaceOff()
			if n == len(src) {
				c.in.chunks = c.in.chunks[1:]
			} else {
				c.in.chunks[0] = src[n:]
			}
			simrt.RaceOn()
			ioAcquire()
			hookRead(c.peer, n, nil)
			return n, nil
		}
		if c.in.fin {
			simrt.RaceOn()
			hookRead(c.peer, 0, io.EOF)
			return 0, io.EOF
		}
		<-c.in.wake
		simrt.RaceOn()
		simrt.Yield("net.read:woke")
	}
}

//go:norace
func hookRead(p *Peer, n int, err error) {
	if OnServerRead != nil {
		OnServerRead(p, n, err)
	}
}

//go:norace
func (c *TCPConn) Write(b []byte) (int, error) {
	simrt.Yield("net.write:pre")
	simrt.RaceOff()
	if c.closed {
		simrt.RaceOn()
		err := &OpError{Op: "write", Net: "tcp", Err: ErrClosed}
		if OnServerWrite != nil {
			OnServerWrite(c.peer, nil, err)
		}
		return 0, err
	}
	if c.failWrite {
		simrt.RaceOn()
		err := &OpError{Op: "write", Net: "tcp", Err: syscall.EPIPE}
		if OnServerWrite != nil {
			OnServerWrite(c.peer, nil, err)
		}
		return 0, err
	}
	simrt.RaceOn()
	ioRelease()
	cp := make([]byte, len(b))
	rcopy(cp, b) // visible read of the caller's buffer
	simrt.RaceOff()
	c.peer.Out = append(c.peer.Out, cp)
	simrt.RaceOn()
	if OnServerWrite != nil {
		OnServerWrite(c.peer, cp, nil)
	}
	return len(b), nil
}

//go:norace
func (c *TCPConn) Close() error {
	simrt.Yield("net.close:pre")
	simrt.RaceOff()
	if c.closed {
		simrt.RaceOn()
		return &OpError{Op: "close", Net: "tcp", Err: ErrClosed}
	}
	c.closed = true
	c.peer.SrvClosed = true
	c.in.signal()
	simrt.RaceOn()
	if OnServerClose != nil {
		OnServerClose(c.peer)
	}
	return nil
}

//go:norace
func (c *TCPConn) CloseRead() error { return nil }

//go:norace
func (c *TCPConn) CloseWrite() error { return nil }

//go:norace
func (c *TCPConn) LocalAddr() Addr { return &TCPAddr{IP: IP{10, 0, 0, 1}, Port: 808} }

//go:norace
func (c *TCPConn) RemoteAddr() Addr {
	return &TCPAddr{IP: IP{10, 0, 1, byte(c.peer.ID)}, Port: 40000 + c.peer.ID}
}

//go:norace
func (c *TCPConn) SetDeadline(t time.Time) error { return nil }

//go:norace
func (c *TCPConn) SetReadDeadline(t time.Time) error { return nil }

//go:norace
func (c *TCPConn) SetWriteDeadline(t time.Time) error { return nil }

//go:norace
func (c *TCPConn) SetKeepAlive(bool) error { return nil }

//go:norace
func (c *TCPConn) SetKeepAlivePeriod(time.Duration) error {
	return nil
}

//go:norace
func (c *TCPConn) SetNoDelay(bool) error { return nil }

//go:norace
func (c *TCPConn) SetLinger(int) error { return nil }

//go:norace
func (c *TCPConn) SetReadBuffer(int) error { return nil }

//go:norace
func (c *TCPConn) SetWriteBuffer(int) error {
	return nil
}

var _ Conn = (*TCPConn)(nil)
var _ Listener = (*TCPListener)(nil)

// IsTimeout mirrors a helper some code uses.
//
//go:norace
func IsTimeout(err error) bool {
	var ne Error
	return errors.As(err, &ne) && ne.Timeout()
}

// rcopy is race-instrumented on purpose.
func rcopy(dst, src []byte) int { return copy(dst, src) }

// ---- pass-through for the pure helpers and types of package net that a changed tree might use ----

type (
	UDPAddr             = stdnet.UDPAddr
	IPAddr              = stdnet.IPAddr
	UnixAddr            = stdnet.UnixAddr
	IPNet               = stdnet.IPNet
	IPMask              = stdnet.IPMask
	AddrError           = stdnet.AddrError
	ParseError          = stdnet.ParseError
	DNSError            = stdnet.DNSError
	InvalidAddrError    = stdnet.InvalidAddrError
	UnknownNetworkError = stdnet.UnknownNetworkError
	Buffers             = stdnet.Buffers
	HardwareAddr        = stdnet.HardwareAddr
)

var (
	IPv4zero = stdnet.IPv4zero
	IPv6zero = stdnet.IPv6zero
)

func JoinHostPort(host, port string) string { return stdnet.JoinHostPort(host, port) }
func SplitHostPort(hostport string) (string, string, error) {
	return stdnet.SplitHostPort(hostport)
}
func ParseIP(s string) IP                        { return stdnet.ParseIP(s) }
func IPv4(a, b, c, d byte) IP                    { return stdnet.IPv4(a, b, c, d) }
func ParseCIDR(s string) (IP, *IPNet, error)     { return stdnet.ParseCIDR(s) }
func ResolveIPAddr(n, a string) (*IPAddr, error) { return stdnet.ResolveIPAddr(n, a) }

// DialTCP / Dial / DialTimeout: the servers never dial; a changed tree that does gets a refused connection.
//
//go:norace
func Dial(network, address string) (Conn, error) {
	return nil, &OpError{Op: "dial", Net: network, Err: syscall.ECONNREFUSED}
}

//go:norace
func DialTimeout(network, address string, d time.Duration) (Conn, error) {
	return Dial(network, address)
}

//go:norace
func DialTCP(network string, laddr, raddr *TCPAddr) (*TCPConn, error) {
	return nil, &OpError{Op: "dial", Net: network, Err: syscall.ECONNREFUSED}
}

// File-descriptor level access is not modelled.
//
//go:norace
func (c *TCPConn) ReadFrom(r io.Reader) (int64, error) {
	buf := make([]byte, 32*1024)
	var total int64
	for {
		n, err := r.Read(buf)
		if n > 0 {
			w, werr := c.Write(buf[:n])
			total += int64(w)
			if werr != nil {
				return total, werr
			}
		}
		if err != nil {
			if err == io.EOF {
				return total, nil
			}
			return total, err
		}
	}
}
