//go:build race

package simnet

import (
	"runtime"
	"unsafe"
)

// Go's real net package orders every successful Write before every later successful Read through one
// global address (syscall.ioSync). The shim reproduces exactly that and nothing more.
var ioSync int64

func ioAcquire() { runtime.RaceAcquire(unsafe.Pointer(&ioSync)) }
func ioRelease() { runtime.RaceReleaseMerge(unsafe.Pointer(&ioSync)) }
