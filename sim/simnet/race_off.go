//go:build !race

package simnet

func ioAcquire() {}
func ioRelease() {}
