package harness

import (
	"fmt"
	"io"
	"log/slog"
	"os"
	"strings"
	"testing"
	"testing/synctest"
	"time"

	"github.com/cuteLittleDevil/go-jt808/protocol/model"

	"verifsim/simfs"
	"verifsim/simnet"
	"verifsim/simrt"
)

// Result is everything a run produced.
type Result struct {
	Plan           *Plan
	Hist           []Ev
	AttEvs         []AttEv
	Crashes        []simrt.Crash
	Outcome        simrt.Outcome
	Steps          int
	SimNs          int64
	LogHash        uint64
	Picks          []string
	Perms          map[string][][]int
	Blocked        []string // goroutines blocked in an operation at the end
	Parked         []string
	Faults         map[string]int
	Rare           map[string]int
	Retained       []*retained
	FS             []simfs.Entry
	FSEffects      []simfs.Effect
	Out            [][][]byte // per connection: what the server wrote
	Ch             *recChooser
	Log            []string
	stabilityFinal []Violation
	parseViol      []Violation
}

//go:norace
func init() {
	slog.SetDefault(slog.New(slog.NewTextHandler(io.Discard, nil)))
}

var devNull *os.File

// Exec runs one plan inside a fresh synctest bubble.
//
//go:norace
func Exec(t *testing.T, p *Plan, replay bool) (res *Result) {
	res = &Result{Plan: p}
	if devNull == nil {
		devNull, _ = os.OpenFile(os.DevNull, os.O_WRONLY, 0)
	}
	// the attachment package and jt1078 print with fmt.Println: silence stdout for the run
	savedOut := os.Stdout
	os.Stdout = devNull
	defer func() { os.Stdout = savedOut }()
	// outside a bubble everything runs in pass-through mode (generators and oracles call the terminal
	// simulator, whose handlers carry the ReplyBody yield hooks)
	defer func() {
		simrt.Enabled = false
		model.SimYield = nil
	}()
	defer func() {
		// synctest.Test panics when the root returns while goroutines that can never exit (accept loops,
		// the session manager) remain blocked: expected, the run is already complete.
		if r := recover(); r != nil {
			s := fmt.Sprint(r)
			if !strings.Contains(s, "deadlock: main bubble goroutine has exited but blocked goroutines remain") {
				panic(r)
			}
		}
	}()
	synctest.Test(t, func(t *testing.T) {
		w := &world{plan: p, byName: map[string]*actorState{}, faults: map[string]int{}, rare: map[string]int{}, epoch: time.Now()}
		ch := newChooser(p, replay)
		simrt.Enabled = true
		simrt.AllowClockJitter = p.Sched.Jitter
		simrt.Reset(ch)
		simnet.Reset()
		simnet.AcceptFailures = p.AcceptFail
		simnet.ListenFails = p.ListenFail
		cwd := p.Att.Cwd
		if cwd == "" {
			cwd = "/simcwd"
		}
		simfs.Reset(cwd)
		simfs.StepFn = simrt.Step
		simfs.WhoFn = simrt.CurName
		simfs.YieldFn = func(site string) { simrt.Yield(site) }
		for _, f := range p.Files {
			if f.Dir {
				simfs.AddDir(f.Path)
			} else {
				simfs.AddFile(f.Path, f.Data)
			}
		}
		model.SimYield = simrt.Yield
		simnet.OnServerWrite = w.onServerWrite
		simnet.OnServerClose = w.onServerClose
		simnet.OnServerRead = w.onServerRead
		for i, c := range p.Conns {
			w.conns = append(w.conns, &connState{idx: i, plan: c})
		}
		for _, a := range p.Actors {
			as := &actorState{a: a}
			w.actors = append(w.actors, as)
			w.byName[a.Name] = as
		}
		if p.Target == "service" || p.Target == "both" {
			w.startService()
		}
		if p.Target == "attachment" || p.Target == "both" {
			w.startAttachment()
		}
		max := p.MaxStep
		if max == 0 {
			max = 20000
		}
		res.Outcome = simrt.RunSched(w, max)
		res.Steps = simrt.Step()
		res.SimNs = int64(simrt.LastActive.Sub(w.epoch))
		res.Hist = w.hist
		res.AttEvs = w.attEvs
		res.Crashes = simrt.Crashes
		res.LogHash = simrt.LogHash()
		res.Picks = ch.Picks
		res.Perms = ch.PermsMap()
		res.Blocked, res.Parked = simrt.Pending()
		for _, k := range w.faultLog {
			w.faults[k]++
		}
		res.Faults = w.faults
		if simnet.AcceptFailed > 0 {
			res.Faults["net.accept_error_fired"] += simnet.AcceptFailed
		}
		if simnet.ListenFailed > 0 {
			res.Faults["net.listen_error_fired"] += simnet.ListenFailed
		}
		w.rare["c03.parse_calls"] = w.parseCalls
		res.Rare = w.rare
		res.Retained = w.retain
		res.FS = simfs.Snapshot()
		res.FSEffects = simfs.Effects
		res.Ch = ch
		res.Log = simrt.Log
		for _, cs := range w.conns {
			if cs.peer != nil {
				res.Out = append(res.Out, cs.peer.Out)
			} else {
				res.Out = append(res.Out, nil)
			}
		}
		if w.retain != nil {
			res.stabilityFinal = append(w.stabViol, w.checkStability()...)
		}
		res.parseViol = w.parseViol
		if os.Getenv("VERIF_DEBUG") != "" {
			for _, c := range res.Crashes {
				fmt.Fprintf(os.Stderr, "CRASH seed=%d step=%d g=%s: %s\n   %s\n", p.Seed, c.Step, c.G, c.Value, strings.Join(c.Frames, "\n   "))
			}
		}
	})
	return res
}
