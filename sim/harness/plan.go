package harness

import (
	"encoding/hex"
	"encoding/json"
)

// Hex is a byte string that travels as hex text in plans and replay files.
type Hex []byte

func (h Hex) MarshalJSON() ([]byte, error) { return json.Marshal(hex.EncodeToString(h)) }
func (h *Hex) UnmarshalJSON(b []byte) error {
	var s string
	if err := json.Unmarshal(b, &s); err != nil {
		return err
	}
	d, err := hex.DecodeString(s)
	*h = d
	return err
}

// HexStr is a string of arbitrary bytes (file names from the wire) that travels as hex text, so that a replay
// file reproduces it exactly (plain JSON strings replace invalid UTF-8).
type HexStr string

func (h HexStr) MarshalJSON() ([]byte, error) { return json.Marshal(hex.EncodeToString([]byte(h))) }
func (h *HexStr) UnmarshalJSON(b []byte) error {
	var s string
	if err := json.Unmarshal(b, &s); err != nil {
		return err
	}
	d, err := hex.DecodeString(s)
	*h = HexStr(d)
	return err
}

// Plan is everything that defines one simulated run apart from the schedule: explicit data generated
// before the bubble starts. Together with Picks/Perms it is a replay file's payload.
type Plan struct {
	Prop    string      `json:"prop"`
	Seed    uint64      `json:"seed"`
	Tier    string      `json:"tier,omitempty"`
	Target  string      `json:"target"` // service | attachment | both
	Svc     SvcOpts     `json:"svc"`
	Att     AttOpts     `json:"att"`
	Conns   []*ConnPlan `json:"conns"`
	Actors  []*Actor    `json:"actors"`
	Sched   SchedOpts   `json:"sched"`
	Files   []FilePlan  `json:"files,omitempty"` // simfs pre-population
	Note    string      `json:"note,omitempty"`
	Faults  []string    `json:"faults,omitempty"` // fault kinds the generator put into this plan
	Expect  *Expect     `json:"expect,omitempty"` // generator annotations for the oracle
	MaxStep int         `json:"max_step"`
	// AcceptFail: this many accept calls of the servers fail transiently (the connection stays in the backlog)
	AcceptFail int `json:"accept_fail,omitempty"`
	// ListenFail: the servers' listen call fails (address in use): Run returns, nobody can connect
	ListenFail bool `json:"listen_fail,omitempty"`
}

type SvcOpts struct {
	Filter   bool   `json:"filter"`   // WithHasSubcontract
	Handlers string `json:"handlers"` // default | record | parse
	Addr     string `json:"addr"`
	Dialect  int    `json:"dialect,omitempty"`
	// KeyMode: "" = the library's default key (the phone number); "tag" = a WithKeyFunc whose key differs from the
	// phone number ("veh/" + the digits reversed); "tag-nohb" = the same, but the function gives no key for
	// heartbeats (ok=false): such a message is served, and the connection joins with its next handled message
	KeyMode string `json:"key_mode,omitempty"`
	// DefaultEvents: the library's own TerminalEventer instead of the recording one (RACE mode only: the run is
	// judged by the race detector, not by the history)
	DefaultEvents bool `json:"default_events,omitempty"`
	// Ext: the 0x0200 handler is the README's location type with the five vendor extension parsers (0x64..0x70)
	Ext bool `json:"ext,omitempty"`
}

// KeyOfDigits is the session key the configured key function gives a terminal with these phone digits.
func (p *Plan) KeyOfDigits(d string) string {
	if p.Svc.KeyMode == "tag" || p.Svc.KeyMode == "tag-nohb" {
		b := []byte(d)
		for i, j := 0, len(b)-1; i < j; i, j = i+1, j-1 {
			b[i], b[j] = b[j], b[i]
		}
		return "veh/" + string(b)
	}
	return d
}

type AttOpts struct {
	Addr        string `json:"addr"`
	Dialect     int    `json:"dialect"`
	DefaultFile bool   `json:"default_file"` // use the package's default FileEventer (on simfs)
	Cwd         string `json:"cwd,omitempty"`
	// CustomData: a user-written data handler (WithDataHandleFunc) that embeds the package's base handler and keeps
	// the record table itself, as the option's documentation invites; non-HLJ dialects only (the HLJ packet-header
	// parser is not exported)
	CustomData bool `json:"custom_data,omitempty"`
}

type FilePlan struct {
	Path string `json:"path"`
	Dir  bool   `json:"dir,omitempty"`
	Data Hex    `json:"data,omitempty"`
}

// ConnPlan describes one terminal connection.
type ConnPlan struct {
	Label  string     `json:"label"`
	Server string     `json:"server"` // service | attachment
	Phone  Hex        `json:"phone"`  // BCD bytes as sent in the header
	Ver19  bool       `json:"ver19"`
	React  []Reaction `json:"react,omitempty"`
	// WriteErrAfterClose: server writes fail once the terminal has gone (else they vanish silently).
	WriteErrAfterClose bool `json:"write_err_after_close"`
	Hostile            bool `json:"hostile,omitempty"`
}

// Reaction is how the terminal answers the k-th platform command it receives.
type Reaction struct {
	Kind  string `json:"kind"` // ok | late | dup | unknown | never
	Delay int64  `json:"delay,omitempty"`
	Var   int    `json:"var,omitempty"` // 0: the minimal response body; >0: a body with content, derived from this number
	Sub   int    `json:"sub,omitempty"` // >= 2: the response is sent as this many sub-packages (kinds ok and late only)
}

// Actor is a sequential script of environment operations.
type Actor struct {
	Name string `json:"name"`
	Conn int    `json:"conn"` // index into Conns, -1 for none
	Ops  []Op   `json:"ops"`
	// ExplicitOnly actors are never chosen by a strategy, only by a recorded pick (fault-point enumeration).
	ExplicitOnly bool `json:"explicit_only,omitempty"`
	// Responder actors hold frames queued by the reactive terminal model; not part of the written plan.
}

type Dep struct {
	Actor string `json:"actor"`
	N     int    `json:"n"`
}

type Op struct {
	K       string `json:"k"` // dial | send | fin | rst | failw | sleep | quiet | call | mark
	Data    Hex    `json:"data,omitempty"`
	End     bool   `json:"end,omitempty"` // after this chunk the byte stream is at a frame boundary
	D       int64  `json:"d,omitempty"`   // ns
	MinStep int    `json:"min_step,omitempty"`
	After   *Dep   `json:"after,omitempty"`
	// AfterClose: enabled only once the server has closed connection AfterClose-1 (what a terminal that reconnects
	// on EOF waits for)
	AfterClose int       `json:"after_close,omitempty"`
	Quiet      bool      `json:"quiet,omitempty"`
	Call       *CallSpec `json:"call,omitempty"`
	Note       string    `json:"note,omitempty"`
	Frame      int       `json:"frame,omitempty"` // index of the (last) frame completed by this chunk, +1; 0 = none
}

type CallSpec struct {
	Key     string `json:"key"`
	Cmd     uint16 `json:"cmd"`
	Body    Hex    `json:"body,omitempty"`
	Timeout int64  `json:"timeout"` // ns; 0 = library default (3 s); <0 = no timeout goroutine
}

type SchedOpts struct {
	Strategy string             `json:"strategy"`         // uniform | sticky | starve | fifo | envfirst
	Sticky   int                `json:"sticky,omitempty"` // percent
	Starve   []string           `json:"starve,omitempty"` // starved roles
	Jitter   bool               `json:"jitter,omitempty"` // offer E:clock
	Picks    []string           `json:"picks,omitempty"`  // recorded schedule (replay)
	Perms    map[string][][]int `json:"perms,omitempty"`
}

// Expect carries what the generator knows about the traffic it produced (sent frames with the parameters
// they were built from). Oracles compare the run against this, never against the code under test.
type Expect struct {
	Frames  [][]SentFrame    `json:"frames,omitempty"` // per connection, in stream order
	Xfers   []Transfer       `json:"xfers,omitempty"`
	Uploads []Upload         `json:"uploads,omitempty"`
	Extra   map[string]int64 `json:"extra,omitempty"`
}

// SentFrame is a frame the terminal sends, with the fields it was encoded from.
type SentFrame struct {
	ID     uint16 `json:"id"`
	Serial uint16 `json:"serial"`
	Body   Hex    `json:"body"`
	Sub    bool   `json:"sub,omitempty"`
	Total  uint16 `json:"total,omitempty"`
	No     uint16 `json:"no,omitempty"`
	Valid  bool   `json:"valid"`          // well-formed frame (decodes)
	Raw    Hex    `json:"raw,omitempty"`  // escaped bytes on the wire (omitted from samples when long)
	Xfer   int    `json:"xfer,omitempty"` // transfer index+1 for sub-packages
	Gap    int64  `json:"gap,omitempty"`  // idle time before this frame (ns)
	// attachment stream units
	File  int    `json:"file,omitempty"`  // file index+1 this unit belongs to (0x1211, 0x1212, chunks)
	Off   int    `json:"off,omitempty"`   // chunk: offset
	Chunk bool   `json:"chunk,omitempty"` // a raw file-data unit (not a JT808 frame)
	Name  HexStr `json:"name,omitempty"`
	// a frame that carries another identity than its connection's (phone and/or header version): 0 = no, 1 = 2013, 2 = 2019
	AsVer   int `json:"as_ver,omitempty"`
	AsPhone Hex `json:"as_phone,omitempty"`
	// C20: the frame carries the simulator's own default body (CreateDefaultCommandData)
	Default bool `json:"default,omitempty"`
}

// Transfer is one sub-packaged message.
type Transfer struct {
	Conn    int    `json:"conn"`
	ID      uint16 `json:"id"`
	Total   int    `json:"total"`
	Bodies  []Hex  `json:"bodies"`
	Serial1 uint16 `json:"serial1"`
	Missing []int  `json:"missing,omitempty"` // never sent in the first round
}

// Upload is one attachment session's expectation.
type Upload struct {
	Conn  int      `json:"conn"`
	Files []UpFile `json:"files"`
}

type UpFile struct {
	Name HexStr `json:"name"`
	Data Hex    `json:"data"`
	Type byte   `json:"type"`
	// Size, when set, is the announced size of a file whose content is not kept (only a few packets of it are ever
	// sent, each with its own random payload); otherwise the size is len(Data)
	Size int64 `json:"size,omitempty"`
}

func (f UpFile) size() int {
	if f.Size > 0 {
		return int(f.Size)
	}
	return len(f.Data)
}

func (p *Plan) Clone() *Plan {
	b, _ := json.Marshal(p)
	var q Plan
	_ = json.Unmarshal(b, &q)
	return &q
}
