package harness

import (
	"fmt"
	"os"
	"path/filepath"
	"sort"
	"strings"

	"verifsim/ref"
	"verifsim/simrt"
)

// genC18 reuses the conversation, command, registry and disconnect scenarios (C06, C09, C11, C12, C13).
// raceCmdIDs: the commands of the C12/C13 scenarios plus 0x9003, whose answer 0x1003 carries no serial and is
// matched to whatever command is outstanding (harmless here: RACE mode has no matching oracle).
var raceCmdIDs = append(append([]uint16(nil), cmdIDs...), 0x9003, 0x9003)

func genC18(seed uint64, tier string, idx int) *Plan {
	var p *Plan
	sel := seed % 6
	if v := os.Getenv("VERIF_C18_ONLY"); v != "" {
		sel = uint64(v[0] - '0')
	}
	switch sel {
	case 5:
		p = genC18Shared(seed, tier)
	case 0:
		p = genC06(seed, tier, idx)
	case 1:
		p = genC09(seed, tier, idx)
		p.Expect.Extra["retain"] = 0
	case 2:
		p = genC11(seed, tier, idx)
	case 3:
		p = genC12(seed, tier, idx)
	default:
		p = genC13(seed, tier, idx)
	}
	if sel == 3 || sel == 4 {
		// some commands become 0x9003, whose answer (0x1003) is itself a message with a default reply
		r := newRng(seed ^ 0x9003)
		for _, a := range p.Actors {
			for i := range a.Ops {
				if a.Ops[i].K == "call" && a.Ops[i].Call != nil && r.chance(20) {
					a.Ops[i].Call.Cmd = 0x9003
				}
			}
		}
	}
	p.Note = "scenario of " + p.Prop
	p.Prop = "C18"
	if (sel == 2 && seed%2 == 0) || seed%7 == 0 {
		// the library's default event object(s) instead of the recording ones: their fields are application state
		// that connection goroutines touch too
		p.Svc.DefaultEvents = true
	}
	if p.Svc.Handlers == "default" && seed%3 == 0 {
		p.Svc.Handlers = "record" // callbacks that read the message they are given, as user handlers do
	}
	return p
}

// genC18Shared: the first handled message of a connection is packet 1 of an incomplete transfer, so its header
// is at once the session's header (used by the writer for platform commands) and the transfer's first-packet
// header (rewritten by the reader when it builds a re-request); commands are issued around the re-request.
func genC18Shared(seed uint64, tier string) *Plan {
	p, g := newPlan("C18", seed, tier)
	v19 := g.r.chance(50)
	ci := g.addConn("service", v19, g.phone(v19))
	a := &Actor{Name: "c0", Conn: ci, Ops: []Op{{K: "dial"}}}
	var frames []SentFrame
	send := func(f SentFrame) {
		frames = append(frames, f)
		a.Ops = append(a.Ops, Op{K: "send", Data: f.Raw, End: true, Frame: len(frames)})
	}
	fr, tr := g.transferFrames(ci, 0x0200, 3+g.r.intn(3), 0, false)
	p.Expect.Xfers = append(p.Expect.Xfers, tr)
	send(fr[0])
	a.Ops = append(a.Ops, Op{K: "quiet"})
	joinOps := len(a.Ops)
	for rd := 0; rd < 1+g.r.intn(3); rd++ {
		a.Ops = append(a.Ops, Op{K: "sleep", D: int64(reissueAfter) + int64(g.r.intn(400))*1e6})
		send(g.mkFrame(ci, 0x0002, g.randSerial(), nil))
		if g.r.chance(50) {
			send(g.mkFrame(ci, 0x0200, g.randSerial(), g.wellFormedBody(0x0200, v19, nil)))
		}
	}
	a.Ops = append(a.Ops, Op{K: "quiet"})
	p.Expect.Frames[ci] = frames
	p.Actors = append(p.Actors, a)
	for k := 0; k < 2+g.r.intn(4); k++ {
		ca := &Actor{Name: fmt.Sprintf("call%d", k), Conn: -1}
		dep := &Dep{Actor: "c0", N: joinOps + g.r.intn(len(a.Ops)-joinOps)}
		ca.Ops = append(ca.Ops, Op{K: "call", After: dep,
			Call: &CallSpec{Key: ref.PhoneDigits(p.Conns[ci].Phone), Cmd: raceCmdIDs[g.r.intn(len(raceCmdIDs))], Body: []byte{0xCD, byte(k)}, Timeout: int64(300+g.r.intn(3000)) * 1e6}})
		p.Actors = append(p.Actors, ca)
	}
	p.Conns[ci].React = []Reaction{{Kind: "ok", Delay: int64(g.r.intn(50)) * 1e6}}
	p.Sched = g.sched()
	p.Sched.Jitter = g.r.chance(30)
	p.MaxStep = 100000
	p.Prop = "C18shared"
	return p
}

// RaceReport is one parsed report of the Go race detector.
type RaceReport struct {
	A, B   RaceAccess
	Sig    string
	Raw    string
	Reason string // why it was filtered out ("" = kept)
}

type RaceAccess struct {
	Kind   string   // Write | Read | Previous write | Previous read
	Frames []string // innermost first, function names
	App    string   // innermost application (or callback stand-in) function
}

var raceLogOff int64

func raceLogPath() string {
	g := os.Getenv("GORACE")
	for _, f := range strings.Fields(g) {
		if strings.HasPrefix(f, "log_path=") {
			return fmt.Sprintf("%s.%d", strings.TrimPrefix(f, "log_path="), os.Getpid())
		}
	}
	return ""
}

// newRaceReports returns the reports the detector wrote since the last call.
func newRaceReports() []RaceReport {
	path := raceLogPath()
	if path == "" {
		// without a log file the detector's reports cannot be attributed: refuse to give a verdict
		fmt.Fprintln(os.Stderr, "C18: GORACE log_path is not set; cannot read race reports")
		os.Exit(2)
	}
	// the detector may have several files (log_path.pid); read ours
	b, err := os.ReadFile(path)
	if err != nil {
		m, _ := filepath.Glob(path + "*")
		if len(m) == 0 {
			return nil
		}
		b, _ = os.ReadFile(m[0])
	}
	if int64(len(b)) <= raceLogOff {
		return nil
	}
	txt := string(b[raceLogOff:])
	raceLogOff = int64(len(b))
	var out []RaceReport
	for _, blk := range strings.Split(txt, "==================") {
		if !strings.Contains(blk, "WARNING: DATA RACE") {
			continue
		}
		out = append(out, parseRaceReport(blk))
	}
	return out
}

func parseRaceReport(blk string) RaceReport {
	r := RaceReport{Raw: blk}
	var cur *RaceAccess
	n := 0
	for _, line := range strings.Split(blk, "\n") {
		t := strings.TrimSpace(line)
		switch {
		case strings.HasPrefix(t, "Write at "), strings.HasPrefix(t, "Read at "), strings.HasPrefix(t, "Previous write at "), strings.HasPrefix(t, "Previous read at "):
			n++
			if n == 1 {
				cur = &r.A
			} else {
				cur = &r.B
			}
			cur.Kind = strings.SplitN(t, " at ", 2)[0]
		case strings.HasPrefix(t, "Goroutine "), t == "":
			if strings.HasPrefix(t, "Goroutine ") {
				cur = nil
			}
		default:
			if cur != nil && strings.HasPrefix(line, "  ") && !strings.HasPrefix(line, "      ") && strings.HasSuffix(t, ")") {
				fn := t[:strings.LastIndex(t, "(")]
				cur.Frames = append(cur.Frames, fn)
			}
		}
	}
	r.A.App, r.B.App = raceAppFrame(r.A.Frames), raceAppFrame(r.B.Frames)
	switch {
	case r.A.App == "" || r.B.App == "":
		r.Reason = "harness-only access (no application or callback frame on one side)"
	default:
		pair := []string{r.A.App, r.B.App}
		sort.Strings(pair)
		r.Sig = "C18.race:" + pair[0] + " <-> " + pair[1]
	}
	return r
}

// raceAppFrame: the innermost frame that is not runtime, standard library or a transparent harness frame must
// lie in service, attachment, protocol or in the harness callback that stands in for user handler code.
func raceAppFrame(frames []string) string {
	for _, f := range frames {
		switch {
		case strings.HasPrefix(f, "verifsim/gen/"):
			return strings.TrimPrefix(f, "verifsim/gen/")
		case strings.Contains(f, "go-jt808/protocol/"), strings.Contains(f, "go-jt808/shared/"), strings.Contains(f, "go-jt808/terminal"):
			return f[strings.Index(f, "go-jt808/")+len("go-jt808/"):]
		case f == "verifsim/harness.touch":
			return "user-callback(reads the message it was given)"
		case strings.HasPrefix(f, "verifsim/simnet.rcopy"), strings.HasPrefix(f, "verifsim/simnet.(*TCPConn)."),
			strings.HasPrefix(f, "verifsim/simrt.Recv"), strings.HasPrefix(f, "verifsim/simrt.MapIter"), strings.HasPrefix(f, "verifsim/simrt.iterate"),
			strings.HasPrefix(f, "verifsim/simrt.MapKeys"), strings.HasPrefix(f, "verifsim/simrt.MapValues"), strings.HasPrefix(f, "verifsim/simrt.OnceDo"),
			strings.HasPrefix(f, "verifsim/simrt.Go"), strings.HasPrefix(f, "verifsim/simrt.child"), strings.HasPrefix(f, "verifsim/simrt.goNamed"):
			continue // transparent: performs the application's own operation
		case strings.HasPrefix(f, "verifsim/"):
			return "" // the harness itself
		case !strings.Contains(f, "/") || strings.HasPrefix(f, "runtime.") || isStd(f):
			continue // runtime / standard library
		default:
			continue
		}
	}
	return ""
}

func isStd(f string) bool {
	first := f
	if i := strings.Index(f, "/"); i >= 0 {
		first = f[:i]
	}
	return !strings.Contains(first, ".") || strings.HasPrefix(f, "golang.org/x/")
}

var raceFiltered = map[string]int{}

// checkC18: zero race reports that pass the frame filter. The reports were produced by the detector while
// this run executed (the worker attributes new log content to the run that just finished).
func checkC18(r *Result) []Violation {
	if !simrt.RaceMode {
		return nil
	}
	var vs []Violation
	for _, rep := range newRaceReports() {
		if rep.Sig == "" {
			raceFiltered[rep.Reason]++
			continue
		}
		vs = append(vs, Violation{Prop: "C18", Rule: "C18.race", Sig: rep.Sig,
			Msg: fmt.Sprintf("data race: %s in %s  vs  %s in %s\n   stack A: %s\n   stack B: %s", rep.A.Kind, rep.A.App, rep.B.Kind, rep.B.App,
				strings.Join(rep.A.Frames, " < "), strings.Join(rep.B.Frames, " < "))})
	}
	return vs
}

func init() {
	register(&propDef{ID: "C18", Gen: genC18, Check: checkC18,
		Interesting: func(r *Result) bool { return len(r.Plan.Conns) >= 1 && r.Steps > 50 }})
}
