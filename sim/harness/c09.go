package harness

import (
	"bytes"
	"fmt"

	"verifsim/ref"
)

func genC09(seed uint64, tier string, idx int) *Plan {
	p, g := newPlan("C09", seed, tier)
	p.Expect.Extra["retain"] = 1
	if g.r.chance(30) {
		p.Svc.Filter = false // every sub-package reaches the callbacks (WithHasSubcontract(false))
	}
	used := map[string]bool{}
	nconn := 1 + g.r.intn(2)
	for c := 0; c < nconn; c++ {
		v19 := g.r.chance(50)
		ci := g.addConn("service", v19, g.distinctPhone(v19, used))
		n := 2 + g.r.intn(14)
		var frames []SentFrame
		escFree := g.r.chance(60) // escape-free frames: body, raw frame and BCD phone alias the read buffer
		for len(frames) < n {
			if g.r.chance(12) {
				id := []uint16{0x0200, 0x0704, 0x0800, 0x1005}[g.r.intn(4)]
				fr, tr := g.transferFrames(ci, id, 2+g.r.intn(4), 0, g.r.chance(50))
				if g.r.chance(25) && len(frames)+len(fr) >= n {
					fr = fr[:len(fr)-1] // the last packet never arrives: the transfer is still open when the connection ends
				}
				// only one open transfer per ID at a time: transfers are emitted whole
				p.Expect.Xfers = append(p.Expect.Xfers, tr)
				for k := range fr {
					fr[k].Xfer = len(p.Expect.Xfers)
				}
				frames = append(frames, fr...)
				continue
			}
			id := g.randID()
			body := g.wellFormedBody(id, v19, p.Conns[ci].Phone)
			f := g.mkFrame(ci, id, g.randSerial(), body)
			if escFree && bytes.ContainsAny(f.Raw[1:len(f.Raw)-1], "\x7d") {
				continue
			}
			frames = append(frames, f)
		}
		style := g.segStyle()
		if g.r.chance(50) {
			style = "frame"
		}
		a := g.connActor(ci, frames, style, 5)
		if !p.Svc.Filter && g.r.chance(25) {
			// a transfer with a packet missing in the middle, held by the callbacks (every sub-package is delivered in
			// this configuration), then more than 5 s of silence and further data: the server builds a re-request while
			// the packets it has are still held
			fr, tr := g.transferFrames(ci, []uint16{0x0200, 0x0704, 0x0800}[g.r.intn(3)], 3+g.r.intn(3), 0, false)
			p.Expect.Xfers = append(p.Expect.Xfers, tr)
			drop := 1 + g.r.intn(len(fr)-2)
			all := p.Expect.Frames[ci]
			for k := range fr {
				if k == drop {
					continue
				}
				fr[k].Xfer = len(p.Expect.Xfers)
				all = append(all, fr[k])
				a.Ops = append(a.Ops, Op{K: "send", Data: fr[k].Raw, End: true, Frame: len(all)})
			}
			a.Ops = append(a.Ops, Op{K: "quiet"}, Op{K: "sleep", D: int64(reissueAfter) + int64(1+g.r.intn(900))*1e6})
			hb := g.mkFrame(ci, 0x0002, g.randSerial(), nil)
			all = append(all, hb)
			a.Ops = append(a.Ops, Op{K: "send", Data: hb.Raw, End: true, Frame: len(all)}, Op{K: "quiet"})
			p.Expect.Frames[ci] = all
			p.Faults = append(p.Faults, "pkt.loss", "clock.idle_advance")
		}
		if g.r.chance(40) {
			// the connection closes at the end: the reader's teardown must not touch delivered messages
			k := "fin"
			if g.r.chance(30) {
				k = "rst"
			}
			a.Ops = append(a.Ops, Op{K: k}, Op{K: "quiet"})
		}
	}
	if g.r.chance(30) {
		// platform commands while delivered messages are held: a command is encoded through the session's header,
		// never through a delivered message's
		for k := 0; k < 1+g.r.intn(2); k++ {
			ci := g.r.intn(len(p.Conns))
			answers := false
			for _, f := range p.Expect.Frames[ci] {
				switch f.ID {
				case 0x0001, 0x0104, 0x1003, 0x1205, 0x1206, 0x0805:
					answers = true // would be taken for the command's answer (C12's subject), not replied to
				}
			}
			if answers {
				continue
			}
			ca := &Actor{Name: fmt.Sprintf("call%d", k), Conn: -1}
			ca.Ops = append(ca.Ops, Op{K: "call", After: &Dep{Actor: p.Conns[ci].Label, N: 2 + g.r.intn(4)},
				Call: &CallSpec{Key: ref.PhoneDigits(p.Conns[ci].Phone), Cmd: 0x8104, Body: []byte{0xC9, byte(k)}, Timeout: int64(300+g.r.intn(700)) * 1e6}})
			p.Actors = append(p.Actors, ca)
			p.Conns[ci].React = []Reaction{{Kind: "never"}}
		}
		p.Faults = append(p.Faults, "input.platform_commands_during_traffic")
	}
	p.Sched = g.sched()
	if g.r.chance(35) {
		p.Sched = SchedOpts{Strategy: "starve", Starve: []string{"go:c.write"}}
	}
	p.MaxStep = 100000
	return p
}

func checkC09(r *Result) []Violation {
	if len(r.stabilityFinal) > 0 {
		return r.stabilityFinal[:1]
	}
	// replies are computed from the bytes of the message they belong to
	if vs := checkReplyModel(r, replyOpts{prop: "C09", wantAll: false}); len(vs) > 0 {
		return vs
	}
	// reassembled data likewise
	for ci := range r.Plan.Conns {
		done := xferCompleteSteps(r, ci)
		byID := map[uint16][]Ev{}
		for _, e := range r.Hist {
			if e.C == ci && e.K == KRead && e.Who == "eventer" && e.Complete {
				byID[e.ID] = append(byID[e.ID], e)
			}
		}
		next := map[uint16]int{}
		for xi, tr := range r.Plan.Expect.Xfers {
			if tr.Conn != ci || done[xi+1] == 0 {
				continue
			}
			k := next[tr.ID]
			next[tr.ID]++
			if k >= len(byID[tr.ID]) {
				continue
			}
			var want []byte
			for _, b := range tr.Bodies {
				want = append(want, b...)
			}
			if e := byID[tr.ID][k]; !bytes.Equal(e.Body, want) {
				return []Violation{{Prop: "C09", Rule: "C09.reassembled_from_other_bytes", Sig: "C09.reassembled_from_other_bytes",
					Msg:  fmt.Sprintf("conn %d: reassembled id=%#04x (%d packets) does not consist of the bytes of its own packets", ci, tr.ID, tr.Total),
					Step: e.Step}}
			}
		}
	}
	return nil
}

func init() {
	register(&propDef{ID: "C09", Gen: genC09, Check: withCrashRule("C09", checkC09),
		Interesting: func(r *Result) bool {
			// non-trivial: some message was retained while at least one later read happened on its connection
			for _, rt := range r.Retained {
				for _, e := range r.Hist {
					if e.K == KSrvRead && e.C == rt.conn && e.Step > rt.step && e.N > 0 {
						return true
					}
				}
			}
			return false
		}})
}
