package harness

import (
	"bytes"
	"fmt"
	"strings"
	"time"

	"verifsim/ref"
)

var cmdIDs = []uint16{0x8103, 0x8104, 0x8801, 0x9101, 0x9102, 0x9205, 0x9206, 0x8300, 0x8105, 0x8202}

// callsOpts shapes the command scenario shared by C12, C13 and C18.
type callsOpts struct {
	maxConns, maxCalls int
	disconnect         bool // C13: the terminal disappears at some point
	traffic            bool
	earlyCalls         bool
	reactKinds         []string
	subResponses       bool // answers may come as sub-packages
}

// onlineConn: dial, register (first handled message -> join), quiescence.
func (g *genCtx) onlineConn(ci int, frames *[]SentFrame) *Actor {
	c := g.p.Conns[ci]
	a := &Actor{Name: c.Label, Conn: ci, Ops: []Op{{K: "dial"}}}
	f := g.mkFrame(ci, 0x0100, g.randSerial(), g.wellFormedBody(0x0100, c.Ver19, c.Phone))
	if g.r.chance(40) {
		f = g.mkFrame(ci, 0x0002, g.randSerial(), nil)
	}
	*frames = append(*frames, f)
	a.Ops = append(a.Ops, Op{K: "send", Data: f.Raw, End: true, Frame: len(*frames)}, Op{K: "quiet"})
	return a
}

func (g *genCtx) timeoutNs() int64 {
	if g.r.chance(12) {
		return 0 // the zero value: the library's default of 3 s
	}
	switch g.r.intn(5) {
	case 0:
		return int64(time.Duration(1+g.r.intn(20)) * time.Millisecond)
	case 1:
		return int64(time.Duration(1+g.r.intn(10)) * time.Second)
	default:
		return int64(time.Duration(50+g.r.intn(3000)) * time.Millisecond)
	}
}

// genCalls builds the command scenario.
func (g *genCtx) genCalls(o callsOpts) {
	p := g.p
	used := map[string]bool{}
	nconn := 1 + g.r.intn(o.maxConns)
	var connActors []*Actor
	joinOps := map[int]int{}
	for c := 0; c < nconn; c++ {
		v19 := g.r.chance(50)
		ci := g.addConn("service", v19, g.distinctPhone(v19, used))
		var frames []SentFrame
		a := g.onlineConn(ci, &frames)
		joinOps[ci] = len(a.Ops)
		p.Expect.Frames[ci] = frames
		connActors = append(connActors, a)
		p.Actors = append(p.Actors, a)
	}
	ncalls := 1 + g.r.intn(o.maxCalls)
	var maxT int64
	sameTimeout := int64(0)
	if g.r.chance(25) {
		sameTimeout = g.timeoutNs() // equal timeouts issued back-to-back: several expire in the same instant
	}
	callsPerConn := map[int]int{}
	for k := 0; k < ncalls; k++ {
		ci := g.r.intn(nconn)
		callsPerConn[ci]++
		cmd := cmdIDs[g.r.intn(len(cmdIDs))]
		body := append([]byte{0xCA, byte(k)}, g.body(g.r.pick(0, 3, 20, 200, 900), 2)...)
		to := g.timeoutNs()
		if sameTimeout != 0 {
			to = sameTimeout
		}
		if eff := to; eff > maxT || (eff == 0 && maxT < int64(3*time.Second)) {
			if eff == 0 {
				eff = int64(3 * time.Second)
			}
			maxT = eff
		}
		ca := &Actor{Name: fmt.Sprintf("call%d", k), Conn: -1}
		op := Op{K: "call", Call: &CallSpec{Key: ref.PhoneDigits(p.Conns[ci].Phone), Cmd: cmd, Body: body, Timeout: to},
			After: &Dep{Actor: p.Conns[ci].Label, N: joinOps[ci]}}
		if o.earlyCalls && g.r.chance(30) {
			// issued as soon as the first message has been delivered: the command may be written before the
			// connection's first reply and then carries platform serial 0
			op.After = &Dep{Actor: p.Conns[ci].Label, N: joinOps[ci] - 1}
		}
		if g.r.chance(30) {
			ca.Ops = append(ca.Ops, Op{K: "sleep", D: int64(time.Duration(g.r.intn(2000)) * time.Millisecond), After: op.After})
		}
		ca.Ops = append(ca.Ops, op)
		p.Actors = append(p.Actors, ca)
	}
	// terminal reactions
	for ci := 0; ci < nconn; ci++ {
		n := callsPerConn[ci] + 1
		for i := 0; i < n; i++ {
			kind := o.reactKinds[g.r.intn(len(o.reactKinds))]
			re := Reaction{Kind: kind}
			if g.r.chance(50) {
				re.Var = 1 + g.r.intn(1000) // a response body with content (parameter lists, id lists)
				if o.subResponses && g.r.chance(25) {
					re.Sub = 2 + g.r.intn(2) // ... sent as sub-packages when it is long enough
				}
			}
			switch kind {
			case "late":
				re.Delay = maxT + int64(time.Duration(1+g.r.intn(2000))*time.Millisecond)
			case "never":
			default:
				switch g.r.intn(4) {
				case 0:
					re.Delay = 0
				case 1:
					re.Delay = int64(time.Duration(g.r.intn(40)) * time.Millisecond)
				default:
					re.Delay = int64(time.Duration(g.r.intn(1500)) * time.Millisecond)
				}
			}
			p.Conns[ci].React = append(p.Conns[ci].React, re)
		}
	}
	// ordinary traffic in between, and (C13) the disconnect
	for i, a := range connActors {
		ci := a.Conn
		frames := p.Expect.Frames[ci]
		v19 := p.Conns[ci].Ver19
		if o.traffic {
			for k := g.r.intn(5); k > 0; k-- {
				if g.r.chance(50) {
					a.Ops = append(a.Ops, Op{K: "sleep", D: int64(time.Duration(g.r.intn(800)) * time.Millisecond)})
				}
				id := []uint16{0x0002, 0x0200, 0x0002, 0x0704}[g.r.intn(4)]
				f := g.mkFrame(ci, id, g.randSerial(), g.wellFormedBody(id, v19, p.Conns[ci].Phone))
				frames = append(frames, f)
				a.Ops = append(a.Ops, Op{K: "send", Data: f.Raw, End: true, Frame: len(frames)})
			}
		}
		p.Expect.Frames[ci] = frames
		if o.disconnect && (i == 0 || g.r.chance(40)) {
			fa := &Actor{Name: p.Conns[ci].Label + ".fault", Conn: ci}
			k := []string{"fin", "rst", "failw"}[g.r.intn(3)]
			op := Op{K: k, After: &Dep{Actor: a.Name, N: 1}}
			switch g.r.intn(3) {
			case 0:
				op.MinStep = 20 + g.r.intn(250)
			case 1:
				fa.Ops = append(fa.Ops, Op{K: "sleep", D: int64(time.Duration(g.r.intn(3000)) * time.Millisecond), After: op.After})
			}
			fa.Ops = append(fa.Ops, op)
			if k == "failw" {
				// a write error the reader has not noticed; later the peer goes away for good
				fa.Ops = append(fa.Ops, Op{K: "sleep", D: int64(time.Duration(g.r.intn(2000)) * time.Millisecond)}, Op{K: "rst"})
			}
			p.Conns[ci].WriteErrAfterClose = g.r.chance(70)
			p.Actors = append(p.Actors, fa)
		}
	}
	// settle: no more faults, let every timer expire, then a probe call for a key that is not online
	settle := &Actor{Name: "settle", Conn: -1}
	for _, a := range p.Actors {
		settle.Ops = append(settle.Ops, Op{K: "mark", Note: "wait:" + a.Name, After: &Dep{Actor: a.Name, N: len(a.Ops)}})
	}
	settle.Ops = append(settle.Ops, Op{K: "quiet"}, Op{K: "sleep", D: maxT + int64(12*time.Second)}, Op{K: "quiet"},
		Op{K: "call", Call: &CallSpec{Key: "no-such-terminal", Cmd: 0x8104, Body: []byte{0xEE}, Timeout: int64(time.Second)}},
		Op{K: "quiet"}, Op{K: "sleep", D: int64(5 * time.Second)}, Op{K: "quiet"})
	p.Actors = append(p.Actors, settle)
	p.Expect.Extra["max_timeout"] = maxT
}

func genC12(seed uint64, tier string, idx int) *Plan {
	p, g := newPlan("C12", seed, tier)
	g.genCalls(callsOpts{maxConns: 3, maxCalls: 6, traffic: true, earlyCalls: true, subResponses: true,
		reactKinds: []string{"ok", "ok", "ok", "late", "dup", "unknown", "never", "unknown_then_ok"}})
	p.Sched = g.sched()
	p.Sched.Jitter = g.r.chance(25)
	p.MaxStep = 100000
	return p
}

// callInfo is the per-call view the C11/C12/C13 oracles share.
type callInfo struct {
	n       int
	call    Ev
	ret     *Ev
	rets    int
	cmdConn int // connection on whose socket the command frame appeared (-1 none)
	cmdEv   *Ev
	cmdSer  uint16
	cmdN    int // how many times the command frame was written
}

func collectCalls(r *Result) []*callInfo {
	var out []*callInfo
	byN := map[int]*callInfo{}
	for i := range r.Hist {
		e := r.Hist[i]
		switch e.K {
		case KCall:
			if e.D == 0 {
				e.D = int64(3 * time.Second) // OverTimeDuration 0 is the documented "default of 3 s"
			}
			ci := &callInfo{n: e.N, call: e, cmdConn: -1}
			out = append(out, ci)
			byN[e.N] = ci
		case KRet:
			if ci := byN[e.N]; ci != nil {
				ci.rets++
				if ci.ret == nil {
					ev := e
					ci.ret = &ev
				}
			}
		}
	}
	// command frames on the sockets: unique bodies identify the call
	for i := range r.Hist {
		e := r.Hist[i]
		if e.K != KSrvWrite || e.Err != "" {
			continue
		}
		f, err := ref.Decode(e.Raw)
		if err != nil || !isPlatformCommand(f.ID) {
			continue
		}
		for _, ci := range out {
			if ci.call.PCmd == f.ID && bytes.Equal(ci.call.Body, f.Body) {
				ci.cmdN++
				if ci.cmdEv == nil {
					ev := e
					ci.cmdEv = &ev
					ci.cmdConn = e.C
					ci.cmdSer = f.Serial
				}
			}
		}
	}
	return out
}

func jitterBetween(r *Result, from, to int) bool {
	// the schedule's E:clock picks are recorded in order; pick index == step-1
	for s := from; s < to && s < len(r.Picks); s++ {
		if s >= 0 && r.Picks[s] == "E:clock" {
			return true
		}
	}
	return false
}

func checkC12(r *Result) []Violation {
	var vs []Violation
	bad := func(rule, msg string, step int) {
		vs = append(vs, Violation{Prop: "C12", Rule: "C12." + rule, Sig: "C12." + rule, Msg: msg, Step: step})
	}
	keyConn := map[string]int{}
	for ci, c := range r.Plan.Conns {
		keyConn[ref.PhoneDigits(c.Phone)] = ci
	}
	// responses the simulated terminals actually sent: raw frame -> delivery event
	type sent struct {
		ev    Ev
		f     ref.Frame
		whole bool // assembled from sub-packages
	}
	var resp []sent
	for _, e := range r.Hist {
		if e.K == KDeliver && strings.HasPrefix(e.Note, "resp:") {
			if f, err := ref.Decode(e.Raw); err == nil {
				resp = append(resp, sent{ev: e, f: f})
			}
		}
	}
	// an answer sent as sub-packages counts as one response, delivered when its last packet is: the pieces are
	// replaced by one entry that carries the whole body
	{
		var merged []sent
		type acc struct {
			parts map[uint16][]byte
			total uint16
		}
		open := map[[2]int]*acc{}
		for _, s := range resp {
			if !s.f.Sub {
				merged = append(merged, s)
				continue
			}
			k := [2]int{s.ev.C, int(s.f.ID)}
			a := open[k]
			if a == nil || s.f.No == 1 {
				a = &acc{parts: map[uint16][]byte{}, total: s.f.Total}
				open[k] = a
			}
			a.parts[s.f.No] = s.f.Body
			if len(a.parts) == int(a.total) {
				var whole []byte
				for no := uint16(1); no <= a.total; no++ {
					whole = append(whole, a.parts[no]...)
				}
				f := s.f
				f.Body, f.Sub = whole, false
				merged = append(merged, sent{ev: s.ev, f: f, whole: true})
				delete(open, k)
			}
		}
		resp = merged
	}
	usedResp := map[int]bool{}
	for _, c := range collectCalls(r) {
		want, online := keyConn[c.call.Key]
		if !online {
			continue // routing of unknown keys is C11's subject
		}
		if c.cmdN == 0 && c.ret != nil && strings.Contains(c.ret.Err, "key not exist") && !strings.Contains(c.ret.Err, "connection closed") {
			joined := 0
			for _, e := range r.Hist {
				if e.K == KJoin && e.C == want && e.Err == "" {
					joined = e.Step
					break
				}
			}
			if joined == 0 || c.call.Step < joined {
				continue // issued before the terminal was online: routing of such calls is C11's subject
			}
		}
		if c.cmdN == 0 {
			bad("command_not_written", fmt.Sprintf("call %d (cmd=%#04x key=%s): no command frame appeared on the terminal's socket", c.n, c.call.PCmd, c.call.Key), c.call.Step)
			return vs
		}
		if c.cmdN > 1 {
			bad("command_written_twice", fmt.Sprintf("call %d (cmd=%#04x): command frame written %d times", c.n, c.call.PCmd, c.cmdN), c.cmdEv.Step)
			return vs
		}
		if c.cmdConn != want {
			bad("command_to_wrong_terminal", fmt.Sprintf("call %d for key %s was written on conn %d, the key's connection is %d", c.n, c.call.Key, c.cmdConn, want), c.cmdEv.Step)
			return vs
		}
		if c.rets > 1 {
			bad("returned_twice", fmt.Sprintf("call %d returned %d times", c.n, c.rets), c.ret.Step)
			return vs
		}
		if c.ret == nil {
			bad("no_result", fmt.Sprintf("call %d (cmd=%#04x timeout=%s) never returned although its terminal stayed connected", c.n, c.call.PCmd, time.Duration(c.call.D)), c.call.Step)
			return vs
		}
		deadline := c.cmdEv.T + c.call.D
		// the matching response (first delivered frame echoing this command's serial)
		var match *sent
		mi := -1
		for i := range resp {
			s := resp[i]
			if s.ev.C == c.cmdConn && len(s.f.Body) >= 2 && (uint16(s.f.Body[0])<<8|uint16(s.f.Body[1])) == c.cmdSer && s.ev.Step > c.cmdEv.Step {
				match = &resp[i]
				mi = i
				break
			}
		}
		if c.ret.Err == "" {
			// a response: it must be the terminal's answer to this caller's own command
			if len(c.ret.Body) < 2 || (uint16(c.ret.Body[0])<<8|uint16(c.ret.Body[1])) != c.cmdSer {
				bad("foreign_response", fmt.Sprintf("call %d (command serial %d) returned a response that echoes another serial: id=%#04x body=%x", c.n, c.cmdSer, c.ret.ID, []byte(c.ret.Body)), c.ret.Step)
				return vs
			}
			// it must be one the terminal actually sent, and no response serves two callers
			found := -1
			for i, s := range resp {
				if usedResp[i] || s.ev.C != c.cmdConn || s.ev.Step >= c.ret.Step {
					continue
				}
				if s.whole && bytes.Equal(s.f.Body, c.ret.Body) && s.f.ID == c.ret.ID {
					if !c.ret.Complete {
						bad("incomplete_response", fmt.Sprintf("call %d was given a sub-package of the terminal's answer (id=%#04x) as its result instead of the complete message", c.n, c.ret.ID), c.ret.Step)
						return vs
					}
					found = i
					break
				}
				if !s.whole && bytes.Equal(s.ev.Raw, c.ret.Raw) {
					found = i
					break
				}
			}
			if found < 0 {
				bad("invented_response", fmt.Sprintf("call %d returned a response the terminal did not send (or already given to another caller): %x", c.n, []byte(c.ret.Raw)), c.ret.Step)
				return vs
			}
			usedResp[found] = true
			if c.ret.T > deadline && !r.Plan.Sched.Jitter {
				bad("response_after_deadline", fmt.Sprintf("call %d returned a response at t=%s, its timeout expired at t=%s", c.n, time.Duration(c.ret.T), time.Duration(deadline)), c.ret.Step)
				return vs
			}
		} else {
			if !strings.Contains(c.ret.Err, "overtime") {
				bad("unexpected_error", fmt.Sprintf("call %d to a connected terminal failed with %q", c.n, c.ret.Err), c.ret.Step)
				return vs
			}
			if c.ret.T < c.call.T+c.call.D {
				bad("timeout_too_early", fmt.Sprintf("call %d (timeout %s, issued at t=%s) reported a timeout at t=%s", c.n, time.Duration(c.call.D), time.Duration(c.call.T), time.Duration(c.ret.T)), c.ret.Step)
				return vs
			}
			if !r.Plan.Sched.Jitter && c.ret.T > deadline {
				bad("timeout_too_late", fmt.Sprintf("call %d: command written at t=%s with timeout %s, timeout reported only at t=%s", c.n, time.Duration(c.cmdEv.T), time.Duration(c.call.D), time.Duration(c.ret.T)), c.ret.Step)
				return vs
			}
			// a matching response that reached the server strictly before the deadline must win
			if match != nil && match.ev.T < deadline && !jitterBetween(r, match.ev.Step, c.ret.Step) {
				bad("timeout_despite_response", fmt.Sprintf("call %d (command serial %d, deadline t=%s) timed out although the terminal's matching response was delivered at t=%s", c.n, c.cmdSer, time.Duration(deadline), time.Duration(match.ev.T)), c.ret.Step)
				return vs
			}
			_ = mi
		}
	}
	// ordinary traffic in between is still answered normally
	return append(vs, checkReplyModel(r, replyOpts{prop: "C12", wantAll: true, numbering: true})...)
}

// enumC12: platform serial wrap-around under commands: 65 534 replies first, then commands whose serials are
// 65534, 65535, 0, 1, ... each answered promptly by the terminal.
func enumC12(tier string) (int, func(i int) *Plan) {
	n := 1
	if tier == "thorough" {
		n = 2
	}
	return n, func(i int) *Plan {
		p, g := newPlan("C12", 0xC12000+uint64(i), tier)
		v19 := i%2 == 1
		ci := g.addConn("service", v19, g.phone(v19))
		var frames []SentFrame
		for k := 0; k < 65534; k++ {
			frames = append(frames, g.mkFrame(ci, 0x0002, uint16(k), nil))
		}
		a := g.connActor(ci, frames, "whole", 0)
		nops := len(a.Ops)
		for k := 0; k < 5; k++ {
			ca := &Actor{Name: fmt.Sprintf("call%d", k), Conn: -1}
			ca.Ops = append(ca.Ops, Op{K: "call", After: &Dep{Actor: a.Name, N: nops},
				Call: &CallSpec{Key: ref.PhoneDigits(p.Conns[ci].Phone), Cmd: cmdIDs[k%len(cmdIDs)], Body: []byte{0xCA, byte(k), 1, 2, 3}, Timeout: int64(2 * time.Second)}})
			p.Actors = append(p.Actors, ca)
		}
		p.Conns[ci].React = []Reaction{{Kind: "ok", Delay: int64(10 * time.Millisecond)}}
		settle := &Actor{Name: "settle", Conn: -1, Ops: []Op{{K: "sleep", D: int64(5 * time.Second), After: &Dep{Actor: "call4", N: 1}}, {K: "quiet"}}}
		p.Actors = append(p.Actors, settle)
		p.Sched = SchedOpts{Strategy: "sticky", Sticky: 80}
		p.MaxStep = 4000000
		p.Note = "platform serial wrap-around with commands"
		p.Faults = append(p.Faults, "serial.wrap")
		return p
	}
}

func foreignC12(r *Result) string {
	if len(r.Crashes) > 0 {
		return "crash(C13)"
	}
	return ""
}

func init() {
	register(&propDef{ID: "C12", Gen: genC12, Enum: enumC12, Check: withCrashRule("C12", checkC12),
		Interesting: func(r *Result) bool {
			n := 0
			for _, c := range collectCalls(r) {
				if c.cmdN > 0 && c.ret != nil {
					n++
				}
			}
			return n >= 2
		}})
}
