package harness

import (
	"encoding/binary"
	"fmt"
	"sort"
	"strings"

	"verifsim/ref"
)

var marker = []byte{0x30, 0x31, 0x63, 0x64}

// chunkUnit encodes one file-data unit: marker, name (50 bytes NUL padded; HLJ: length-prefixed), offset, length, data.
func chunkUnit(dialect int, name string, off int, data []byte) []byte {
	b := append([]byte(nil), marker...)
	if dialect == 2 {
		b = append(b, byte(len(name)))
		b = append(b, name...)
	} else {
		b = append(b, padStr(name, 50)...)
	}
	b = binary.BigEndian.AppendUint32(b, uint32(off))
	b = binary.BigEndian.AppendUint32(b, uint32(len(data)))
	return append(b, data...)
}

func body1211(name string, typ byte, size int) []byte {
	b := []byte{byte(len(name))}
	b = append(b, name...)
	b = append(b, typ)
	return binary.BigEndian.AppendUint32(b, uint32(size))
}

type attOpts struct {
	maxFiles  int
	maxChunks int
	chunkMax  int
	hostile   bool // hostile names (C19)
	withhold  bool // C16: withhold a subset, 0x1212, resend, 0x1212
	dups      bool // C15: resent chunks
	markerPct int  // names / alarm ids containing the marker bytes
	finAtEnd  bool
	grouped   bool // all 0x1211 first, then the data of all files interleaved, then the 0x1212s
	holes     int  // >0: one file of 2*holes+1 bytes sent byte by byte, every second byte withheld: that many gaps
	sparse    int  // >0: one file announced with this size of which only a few packets ever arrive: very long gaps
	again1211 bool // a file's 0x1211 may be repeated after its first data packet
	second    bool // the files are announced by two alarms (0x1210): the second arrives while the first file is unfinished
	reuse     bool // after everything else a further alarm announces a file under the name of the first one (new content)
}

// fileName draws a file name valid on the wire for the dialect (no NUL, fits the chunk header).
func (g *genCtx) fileName(dialect int, used map[string]bool, o attOpts) string {
	for {
		max := 50
		if dialect == 2 {
			max = 80
		}
		var name []byte
		switch {
		case o.markerPct > 0 && g.r.chance(o.markerPct):
			name = append([]byte("f"), marker...)
			name = append(name, []byte(fmt.Sprintf("%d.jpg", g.r.intn(100)))...)
		case g.r.chance(50):
			name = []byte(fmt.Sprintf("00_64_6401_%d_%x.jpg", g.r.intn(10), g.r.next()&0xffffff))
		default:
			n := 1 + g.r.intn(max)
			if dialect == 2 && !used["\x00long"] && g.r.chance(12) {
				// the name field of this dialect's packet header has a one-byte length: names up to 255 bytes are
				// legal (one per session, so that the 0x1210 body stays below 1024 bytes)
				n = g.r.pick(128, 200, 254, 255, 255)
				max = 255
				used["\x00long"] = true
			}
			name = make([]byte, n)
			for i := range name {
				c := byte(g.r.next())
				for c == 0 || c == '/' {
					c = byte(g.r.next())
				}
				name[i] = c
			}
			if n >= 3 && g.r.chance(12) {
				name[1+g.r.intn(n-2)] = 0 // a zero byte inside the name (never first or last: the packet field is zero padded)
			}
		}
		if len(name) > max {
			name = name[:max]
		}
		s := string(name)
		if s == "." || s == ".." || used[s] {
			continue
		}
		used[s] = true
		return s
	}
}

var hostileNames = []string{"../x", "../../etc/cron.d/x", "/abs/path", "/etc/passwd", "a/../../b", "..", ".", "a/b", "sub/dir/file", "./../victim", "x/", "/", "....//....//x",
	"..\\x", "a\x00b", "\x00../x", "\x00\x00../victim", "\x00/abs/path", "../x\x00", "\x00../OTHER/file.bin", "%2e%2e/x", "../OTHER/file.bin", "../file.log", "../../outside.txt"}

// genUpload builds one attachment session for connection ci.
func (g *genCtx) genUpload(ci int, o attOpts) {
	p := g.p
	c := p.Conns[ci]
	dialect := p.Att.Dialect
	used := map[string]bool{}
	nfiles := 1 + g.r.intn(o.maxFiles)
	if o.holes > 0 || o.sparse > 0 {
		nfiles = 1
	}
	var files []UpFile
	for f := 0; f < nfiles; f++ {
		var name string
		if o.hostile && g.r.chance(70) {
			name = hostileNames[g.r.intn(len(hostileNames))]
			if g.r.chance(30) {
				// composed: components that look harmless one by one and collapse into a climb when "cleaned"
				parts := []string{"..", "....", "...", ".", "a", "", "..", "x", "....", "..."}
				seps := []string{"/", "//", "/./", "/"}
				name = ""
				if g.r.chance(30) {
					name = "/"
				}
				for k := 2 + g.r.intn(4); k > 0; k-- {
					name += parts[g.r.intn(len(parts))] + seps[g.r.intn(len(seps))]
				}
				name += "x"
			}
			if g.r.chance(20) {
				name = "../" + name
			}
			if dialect != 2 && g.r.chance(12) {
				// announced names may be longer than the 50-byte name field of a data packet's header; a terminal that
				// truncates sends the first 50 bytes there. The first 50 bytes are a harmless local path, the whole is not.
				switch g.r.intn(4) {
				case 0:
					name = strings.Repeat("./", 25) + "../pwn.bin"
				case 1:
					name = "." + strings.Repeat("/", 49) + "../victim"
				case 2:
					name = strings.Repeat("k", 50) + "/../../OTHER/file.bin"
				default:
					name = strings.Repeat("d/", 24) + "ee" + strings.Repeat("/..", 26) + "/outside.txt"
				}
				p.Faults = append(p.Faults, "input.name_longer_than_packet_field")
			}
			if used[name] {
				name = g.fileName(dialect, used, o)
			}
			used[name] = true
		} else {
			name = g.fileName(dialect, used, o)
		}
		size := 1
		switch g.r.intn(5) {
		case 0:
			size = 1 + g.r.intn(3)
		case 1:
			size = 1 + g.r.intn(200)
		default:
			size = 1 + g.r.intn(o.chunkMax*o.maxChunks)
		}
		if o.holes > 0 {
			size = 2*o.holes + 1
		}
		if o.sparse > 0 {
			files = append(files, UpFile{Name: HexStr(name), Size: int64(o.sparse), Type: byte(g.r.intn(5))})
			continue
		}
		data := g.r.bytes(size)
		if o.holes == 0 && g.r.chance(20) && size > 8 {
			copy(data[g.r.intn(size-4):], marker) // file content containing the marker
		}
		files = append(files, UpFile{Name: HexStr(name), Data: data, Type: byte(g.r.intn(5))})
	}
	p.Expect.Uploads = append(p.Expect.Uploads, Upload{Conn: ci, Files: files})
	var units []SentFrame
	cur := &units // where ctl/emit append: the session prologue, or one of a file's three sections
	serial := uint16(g.r.next())
	ctl := func(id uint16, body []byte, file int, name string) {
		serial++
		f := ref.Frame{ID: id, Ver19: c.Ver19, VerByte: 1, Phone: c.Phone, Serial: serial, Body: body}
		*cur = append(*cur, SentFrame{ID: id, Serial: serial, Body: body, Valid: true, Raw: f.Encode(), File: file, Name: HexStr(name)})
	}
	alarmID := fmt.Sprintf("ALARM%06d", g.r.intn(1000000))
	if o.markerPct > 0 && g.r.chance(o.markerPct) {
		alarmID = "A" + string(marker) + "Z"
	}
	firstN := nfiles
	var second []SentFrame
	if o.second && nfiles >= 2 && !o.grouped {
		firstN = 1 + g.r.intn(nfiles-1)
		p.Faults = append(p.Faults, "input.second_alarm_mid_upload")
	}
	ctl(0x1210, attach1210Body(dialect, "TERM001", alarmID, files[:firstN]), 0, "")
	units[len(units)-1].Xfer = firstN // files announced once this alarm has arrived
	if firstN < nfiles {
		cur = &second
		ctl(0x1210, attach1210Body(dialect, "TERM001", alarmID+"B", files[firstN:]), 0, "")
		second[len(second)-1].Xfer = nfiles
		cur = &units
	}
	order := make([]int, nfiles)
	for i := range order {
		order[i] = i
	}
	pre := make([][]SentFrame, nfiles)
	data := make([][]SentFrame, nfiles)
	post := make([][]SentFrame, nfiles)
	for fi := range files {
		f := files[fi]
		cur = &pre[fi]
		ctl(0x1211, body1211(string(f.Name), f.Type, f.size()), fi+1, string(f.Name))
		cur = &data[fi]
		// split into chunks
		type ch struct{ off, n int }
		var chunks []ch
		for off := 0; off < len(f.Data) && o.sparse == 0; {
			n := 1 + g.r.intn(o.chunkMax)
			if g.r.chance(15) {
				n = 1
			}
			if off+n > len(f.Data) {
				n = len(f.Data) - off
			}
			chunks = append(chunks, ch{off, n})
			off += n
			if len(chunks) >= o.maxChunks {
				if off < len(f.Data) {
					chunks = append(chunks, ch{off, len(f.Data) - off})
				}
				break
			}
		}
		if o.holes > 0 {
			chunks = chunks[:0]
			for off := 0; off < len(f.Data); off++ {
				chunks = append(chunks, ch{off, 1})
			}
		}
		if o.sparse > 0 {
			// a few packets at scattered offsets; the long stretches between them never arrive
			chunks = chunks[:0]
			k := 1 + g.r.intn(3)
			step := f.size() / k
			for i := 0; i < k; i++ {
				n := 1 + g.r.intn(1000)
				off := i*step + g.r.intn(step-n)
				if g.r.chance(40) {
					if i == 0 {
						off = g.r.intn(2000) // right at the start ...
					} else if i == k-1 {
						off = f.size() - n - g.r.intn(2000) // ... and right at the end: as far apart as the size allows
					}
				}
				chunks = append(chunks, ch{off, n})
			}
		}
		// arrival order permuted
		if g.r.chance(60) {
			for i := len(chunks) - 1; i > 0; i-- {
				j := g.r.intn(i + 1)
				chunks[i], chunks[j] = chunks[j], chunks[i]
			}
			if len(chunks) > 1 {
				p.Faults = append(p.Faults, "pkt.reorder")
			}
		}
		emit := func(c ch) {
			var payload []byte
			if f.Size > 0 {
				payload = g.r.bytes(c.n)
			} else {
				payload = f.Data[c.off : c.off+c.n]
			}
			*cur = append(*cur, SentFrame{Chunk: true, File: fi + 1, Off: c.off, Body: payload, Valid: true,
				Raw: chunkUnit(dialect, string(f.Name), c.off, payload), Name: f.Name})
		}
		var withheld []ch
		for i, c := range chunks {
			if (o.holes > 0 && c.off%2 == 1) || (o.holes == 0 && o.withhold && g.r.chance(35)) {
				withheld = append(withheld, c)
				continue
			}
			emit(c)
			if o.again1211 && i == 0 && len(chunks) > 1 && g.r.chance(20) {
				// the terminal repeats the file's 0x1211 after its first data packet (acknowledged, nothing is lost)
				ctl(0x1211, body1211(string(f.Name), f.Type, f.size()), fi+1, string(f.Name))
				p.Faults = append(p.Faults, "input.repeated_1211")
			}
			if o.dups && g.r.chance(15) && i < len(chunks)-1 {
				emit(c)
				p.Faults = append(p.Faults, "pkt.dup")
			}
		}
		cur = &post[fi]
		if o.dups && len(withheld) == 0 && len(chunks) > 1 && g.r.chance(20) {
			emit(chunks[g.r.intn(len(chunks))]) // re-sent after the file is complete
			p.Faults = append(p.Faults, "pkt.dup_after_complete")
		}
		ctl(0x1212, body1211(string(f.Name), f.Type, f.size()), fi+1, string(f.Name))
		if len(withheld) > 0 {
			p.Faults = append(p.Faults, "pkt.loss")
			// partial resupply in a second round now and then, the rest in a third
			rounds := [][]ch{withheld}
			if len(withheld) > 1 && g.r.chance(40) {
				k := 1 + g.r.intn(len(withheld)-1)
				rounds = [][]ch{withheld[:k], withheld[k:]}
			}
			for _, rd := range rounds {
				if o.dups && len(chunks) > len(withheld) && g.r.chance(25) {
					for _, c := range chunks { // re-send one the server already has, first thing after the 0x1212
						held := false
						for _, w := range withheld {
							if w == c {
								held = true
							}
						}
						if !held {
							emit(c)
							p.Faults = append(p.Faults, "pkt.dup_after_retransmit")
							break
						}
					}
				}
				for _, c := range rd {
					emit(c)
				}
				ctl(0x1212, body1211(string(f.Name), f.Type, f.size()), fi+1, string(f.Name))
			}
		}
	}
	if o.grouped {
		for fi := range files {
			units = append(units, pre[fi]...)
		}
		units = append(units, g.mergeStreams(data...)...)
		for fi := range files {
			units = append(units, post[fi]...)
		}
	} else {
		for fi := range files {
			units = append(units, pre[fi]...)
			units = append(units, data[fi]...)
			if fi == 0 && len(second) > 0 {
				// the second alarm: after the first file's data (and before its 0x1212), or inside its resupply rounds
				k := 0
				if len(post[0]) > 1 && g.r.chance(50) {
					k = 1 + g.r.intn(len(post[0])-1)
				}
				units = append(units, post[0][:k]...)
				units = append(units, second...)
				units = append(units, post[0][k:]...)
				continue
			}
			units = append(units, post[fi]...)
		}
	}
	if o.reuse && o.sparse == 0 && o.holes == 0 {
		// a later alarm on the same connection uploads a file under a name used before (its upload is finished by
		// now): the new file is a file of its own - new size, new content, complete only when all of it has arrived
		old := files[g.r.intn(nfiles)]
		size := 1 + g.r.intn(o.chunkMax*2)
		if g.r.chance(40) {
			size = old.size()
		}
		nf := UpFile{Name: old.Name, Data: g.r.bytes(size), Type: old.Type}
		files = append(files, nf)
		p.Expect.Uploads[len(p.Expect.Uploads)-1].Files = files
		fi := len(files) - 1
		cur = &units
		ctl(0x1210, attach1210Body(dialect, "TERM001", alarmID+"R", files[fi:]), 0, "")
		units[len(units)-1].Xfer = len(files)
		ctl(0x1211, body1211(string(nf.Name), nf.Type, size), fi+1, string(nf.Name))
		var offs [][2]int
		for off := 0; off < size; {
			n := 1 + g.r.intn(o.chunkMax)
			if off+n > size {
				n = size - off
			}
			offs = append(offs, [2]int{off, n})
			off += n
		}
		if g.r.chance(50) {
			for i := len(offs) - 1; i > 0; i-- {
				j := g.r.intn(i + 1)
				offs[i], offs[j] = offs[j], offs[i]
			}
		}
		var held [][2]int
		for _, c := range offs {
			if o.withhold && g.r.chance(35) {
				held = append(held, c) // lost in the first round: the new file's report must list it
				continue
			}
			units = append(units, SentFrame{Chunk: true, File: fi + 1, Off: c[0], Body: nf.Data[c[0] : c[0]+c[1]], Valid: true,
				Raw: chunkUnit(dialect, string(nf.Name), c[0], nf.Data[c[0]:c[0]+c[1]]), Name: nf.Name})
		}
		ctl(0x1212, body1211(string(nf.Name), nf.Type, size), fi+1, string(nf.Name))
		if len(held) > 0 {
			for _, c := range held {
				units = append(units, SentFrame{Chunk: true, File: fi + 1, Off: c[0], Body: nf.Data[c[0] : c[0]+c[1]], Valid: true,
					Raw: chunkUnit(dialect, string(nf.Name), c[0], nf.Data[c[0]:c[0]+c[1]]), Name: nf.Name})
			}
			ctl(0x1212, body1211(string(nf.Name), nf.Type, size), fi+1, string(nf.Name))
			p.Faults = append(p.Faults, "pkt.loss")
		}
		p.Faults = append(p.Faults, "input.file_name_reused_by_later_alarm")
	}
	p.Expect.Frames[ci] = units
	stream, ends := streamOf(units)
	a := &Actor{Name: c.Label, Conn: ci, Ops: []Op{{K: "dial"}}}
	style := g.segStyle()
	if style == "bytewise" && len(stream) > 3000 {
		style = "random"
	}
	for _, op := range g.segment(stream, ends, style, 60000) {
		a.Ops = append(a.Ops, op)
		if g.r.chance(10) {
			a.Ops = append(a.Ops, Op{K: "quiet"})
		}
	}
	a.Ops = append(a.Ops, Op{K: "quiet"})
	if o.finAtEnd {
		a.Ops = append(a.Ops, Op{K: "fin"}, Op{K: "quiet"})
	}
	p.Actors = append(p.Actors, a)
	switch style {
	case "bytewise":
		p.Faults = append(p.Faults, "seg.bytewise")
	case "coalesce", "whole":
		p.Faults = append(p.Faults, "seg.coalesce")
	case "nasty", "random":
		p.Faults = append(p.Faults, "seg.split")
	}
}

// ---- reference file model over the delivery history ----

type ivl struct{ off, end int }

// missingRanges returns the maximal gaps of [0,size) not covered by got, ascending (offset, length).
func missingRanges(size int, got []ivl) [][2]uint32 {
	s := append([]ivl(nil), got...)
	sort.Slice(s, func(i, j int) bool { return s[i].off < s[j].off })
	var out [][2]uint32
	pos := 0
	for _, g := range s {
		if g.end <= pos || g.off >= size {
			continue
		}
		if g.off > pos {
			out = append(out, [2]uint32{uint32(pos), uint32(g.off - pos)})
		}
		pos = g.end
	}
	if pos < size {
		out = append(out, [2]uint32{uint32(pos), uint32(size - pos)})
	}
	return out
}

// unitsDeliveredBefore returns how many units of connection ci had been completely delivered by the
// environment strictly before step.
func unitsDeliveredBefore(r *Result, ci, step int) int {
	n := 0
	for _, e := range r.Hist {
		if e.Step >= step {
			break
		}
		if e.K == KDeliver && e.C == ci && e.Ref > n {
			n = e.Ref
		}
	}
	return n
}
