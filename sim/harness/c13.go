package harness

import (
	"fmt"
	"strings"
	"testing"
	"time"
)

func genC13(seed uint64, tier string, idx int) *Plan {
	p, g := newPlan("C13", seed, tier)
	if g.r.chance(2) {
		// the listener cannot be opened (address in use): Run gives up, no terminal ever connects, and commands
		// issued before, while and after that still return (not-exist)
		p.ListenFail = true
		p.Faults = append(p.Faults, "net.listen_fails")
		for k := 0; k < 1+g.r.intn(3); k++ {
			ca := &Actor{Name: fmt.Sprintf("call%d", k), Conn: -1}
			ca.Ops = append(ca.Ops, Op{K: "call", MinStep: g.r.intn(60),
				Call: &CallSpec{Key: "13800001234", Cmd: 0x8104, Body: []byte{0xC1, byte(k)}, Timeout: int64(time.Duration(100+g.r.intn(900)) * time.Millisecond)}})
			p.Actors = append(p.Actors, ca)
		}
		p.Sched = g.sched()
		p.MaxStep = 100000
		return p
	}
	g.genCalls(callsOpts{maxConns: 2, maxCalls: 7, traffic: g.r.chance(50), disconnect: true,
		reactKinds: []string{"ok", "ok", "never", "never", "late", "dup", "unknown"}})
	p.Sched = g.sched()
	p.Sched.Jitter = g.r.chance(40)
	p.MaxStep = 100000
	return p
}

// crashSig names a crash by the innermost application function and the panic class (stable under line shifts).
func crashSig(frames []string, value string) string {
	fn := "?"
	for _, f := range frames {
		if strings.Contains(f, "verifsim/harness") || strings.Contains(f, "verifsim/sim") {
			continue
		}
		fn = f
		break
	}
	fn = strings.TrimPrefix(fn, "verifsim/gen/")
	fn = strings.TrimPrefix(fn, "github.com/cuteLittleDevil/go-jt808/protocol/")
	class := value
	for _, k := range []string{"send on closed channel", "close of closed channel", "index out of range", "slice bounds out of range", "nil pointer dereference", "nil map", "integer divide by zero"} {
		if strings.Contains(value, k) {
			class = k
			break
		}
	}
	if len(class) > 60 {
		class = class[:60]
	}
	return fn + ":" + class
}

func checkC13(r *Result) []Violation {
	var vs []Violation
	for _, c := range r.Crashes {
		if c.Role == "caller" && false {
			continue
		}
		sig := crashSig(c.Frames, c.Value)
		vs = append(vs, Violation{Prop: "C13", Rule: "C13.crash", Sig: "C13.crash:" + sig,
			Msg: fmt.Sprintf("panic in goroutine %s (would terminate the server): %s; stack: %s", c.G, c.Value, strings.Join(c.Frames, " < ")), Step: c.Step})
	}
	if len(vs) > 0 {
		return vs[:1]
	}
	// bounded liveness: the run ended quiescent after the clock was advanced past the largest timeout; every
	// caller must have returned by then
	if r.Outcome != 0 {
		// The run did not reach quiescence within the step budget (hundreds of times what these scenarios need):
		// something keeps spinning or waiting on something that never comes. If a caller is still waiting at
		// that point the bounded-liveness clause is broken; otherwise the run is merely inconclusive.
		for _, c := range collectCalls(r) {
			if c.ret == nil {
				return []Violation{{Prop: "C13", Rule: "C13.stranded_caller", Sig: "C13.stranded_caller:no_quiescence",
					Msg: fmt.Sprintf("the system never became quiescent within %d scheduler steps and SendActiveMessage call %d (cmd=%#04x key=%s) had not returned; parked: %v blocked: %v",
						r.Steps, c.n, c.call.PCmd, c.call.Key, r.Parked, r.Blocked), Step: c.call.Step}}
			}
		}
		return nil
	}
	for _, c := range collectCalls(r) {
		if c.ret != nil {
			// "within its timeout plus scheduling slack": computation takes no simulated time, so without
			// injected clock jitter a call is over by issue time + timeout; one second of slack is granted
			if !r.Plan.Sched.Jitter && c.call.D > 0 && c.ret.T > c.call.T+c.call.D+int64(time.Second) {
				vs = append(vs, Violation{Prop: "C13", Rule: "C13.late_return", Sig: "C13.late_return",
					Msg: fmt.Sprintf("SendActiveMessage call %d (timeout %s, issued at t=%s) returned only at t=%s", c.n, time.Duration(c.call.D), time.Duration(c.call.T), time.Duration(c.ret.T)), Step: c.ret.Step})
				return vs
			}
			continue
		}
		// classify where the stranded call got stuck, for the signature
		where := "queued"
		if c.cmdN > 0 {
			where = "outstanding"
		}
		cause := "connected"
		for _, e := range r.Hist {
			if e.C == c.cmdConn || (c.cmdConn < 0 && e.C >= 0) {
				if e.K == KFin || e.K == KRst || e.K == KFailW {
					cause = "disconnect"
				}
			}
		}
		vs = append(vs, Violation{Prop: "C13", Rule: "C13.stranded_caller", Sig: "C13.stranded_caller:" + where + ":" + cause,
			Msg: fmt.Sprintf("SendActiveMessage call %d (cmd=%#04x key=%s timeout=%s) had not returned when the system was quiescent with every timer expired (%s, %s); blocked goroutines: %v",
				c.n, c.call.PCmd, c.call.Key, time.Duration(c.call.D), where, cause, r.Blocked), Step: c.call.Step})
		return vs
	}
	return nil
}

// c13Baseline k: a small fixed command scenario run under the FIFO schedule.
func c13Baseline(k int) *Plan {
	p, g := newPlan("C13", 0xC13000+uint64(k), "enum")
	g.genCalls(callsOpts{maxConns: 1 + k%2, maxCalls: 2 + k%5, traffic: k%2 == 0, disconnect: false,
		reactKinds: []string{"ok", "never", "ok", "late"}})
	p.Sched = SchedOpts{Strategy: "fifo"}
	p.MaxStep = 100000
	// the explicit-only fault actors used by the enumeration
	for _, kind := range []string{"fin", "rst", "failw"} {
		p.Actors = append(p.Actors, &Actor{Name: "c0.enum." + kind, Conn: 0, ExplicitOnly: true, Ops: []Op{{K: kind}}})
	}
	return p
}

var c13BaseCache = map[int][]string{}

// enumC13: for each baseline, every step index once with FIN, once with RST, once with a write failure on
// the command's target connection.
func enumC13(t *testing.T, tier string) (int, func(i int) *Plan) {
	nb := 3
	if tier == "thorough" {
		nb = 24
	}
	type item struct {
		base, step int
		kind       string
	}
	var items []item
	for b := 0; b < nb; b++ {
		picks, ok := c13BaseCache[b]
		if !ok {
			res := Exec(t, c13Baseline(b), false)
			picks = res.Picks
			c13BaseCache[b] = picks
		}
		for s := 1; s <= len(picks); s++ {
			for _, kind := range []string{"fin", "rst", "failw"} {
				items = append(items, item{b, s, kind})
			}
		}
	}
	return len(items), func(i int) *Plan {
		it := items[i]
		p := c13Baseline(it.base)
		picks := c13BaseCache[it.base]
		p.Sched.Picks = append(append([]string(nil), picks[:it.step]...), "E:c0.enum."+it.kind)
		p.Note = fmt.Sprintf("fault-point enumeration: baseline %d, %s at step %d of %d", it.base, it.kind, it.step, len(picks))
		p.Faults = append(p.Faults, "enum."+it.kind)
		return p
	}
}

func init() {
	register(&propDef{ID: "C13", Gen: genC13, EnumT: enumC13, Check: checkC13,
		Interesting: func(r *Result) bool {
			// a disconnect happened while at least one call was in flight
			for _, e := range r.Hist {
				if e.K == KFin || e.K == KRst || e.K == KFailW {
					for _, c := range collectCalls(r) {
						if c.call.Step < e.Step && (c.ret == nil || c.ret.Step > e.Step) {
							return true
						}
					}
				}
			}
			return false
		}})
}
