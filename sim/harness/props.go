package harness

import "testing"

// propDef ties a property to its plan generator(s) and its oracle.
type propDef struct {
	ID string
	// Gen makes the plan of run idx of the seeded random search.
	Gen func(seed uint64, tier string, idx int) *Plan
	// Enum returns the number of enumerated (non-random) plans of a tier and a constructor for the i-th.
	Enum func(tier string) (int, func(i int) *Plan)
	// EnumT is Enum for enumerations that have to execute baselines first (fault-point enumeration).
	EnumT func(t *testing.T, tier string) (int, func(i int) *Plan)
	// Check evaluates the property's own rules on a finished run.
	Check func(r *Result) []Violation
	// Foreign lists events that belong to other properties; a run that shows one is truncated, not reported.
	Foreign func(r *Result) string
	// Interesting reports whether the run is non-trivial by the property's stated rule.
	Interesting func(r *Result) bool
}

var props = map[string]*propDef{}

func register(p *propDef) { props[p.ID] = p }
