package harness

import (
	"encoding/json"
	"fmt"
	"os"
	"sort"
	"strconv"
	"testing"
	"time"

	"verifsim/simrt"
)

// BatchOut is what one worker process reports to the driver.
type BatchOut struct {
	Prop        string            `json:"prop"`
	Tier        string            `json:"tier"`
	From        int               `json:"from"`
	Runs        int               `json:"runs"`
	Enumerated  int               `json:"enumerated"`
	Steps       int64             `json:"steps"`
	SimNs       int64             `json:"sim_ns"`
	WallMs      int64             `json:"wall_ms"`
	Faults      map[string]int    `json:"faults"`
	Rare        map[string]int    `json:"rare"`
	SchedHashes []uint64          `json:"sched_hashes"`
	PlanHashes  []uint64          `json:"plan_hashes"`
	Interesting int               `json:"interesting"`
	IntHashes   []uint64          `json:"int_hashes"`
	Foreign     map[string]int    `json:"foreign"`
	StepCap     int               `json:"step_cap"`
	Known       map[string]int    `json:"known"`
	KnownMsg    map[string]string `json:"known_msg"`
	Violations  []FoundViolation  `json:"violations"`
	Samples     []json.RawMessage `json:"samples"`
	LogHashes   []uint64          `json:"log_hashes,omitempty"`
	Probes      []uint32          `json:"probes,omitempty"`
	Lin         map[string]int    `json:"lin,omitempty"`
	Strategies  map[string]int    `json:"strategies"`
}

type FoundViolation struct {
	Violation
	Run    int    `json:"run"`
	Seed   uint64 `json:"run_seed"`
	Replay string `json:"replay"`
}

func envInt(k string, def int) int {
	if v := os.Getenv(k); v != "" {
		n, err := strconv.ParseInt(v, 10, 64)
		if err == nil {
			return int(n)
		}
	}
	return def
}

func runSeed(base uint64, prop string, idx int) uint64 {
	return simrt.Hash64(fmt.Sprint(base), prop, fmt.Sprint(idx))
}

var linStats = map[string]int{}

// TestWorker is the entry point of the simulator binary. It is driven by environment variables so that the
// driver (cmd/verif) can fan it out over processes.
func TestWorker(t *testing.T) {
	mode := os.Getenv("VERIF_MODE")
	switch mode {
	case "":
		t.Skip("VERIF_MODE not set")
	case "batch":
		workerBatch(t)
	case "replay":
		workerReplay(t)
	case "dethash":
		workerDetHash(t)
	default:
		t.Fatalf("unknown VERIF_MODE %q", mode)
	}
}

var watchdogSeed string

func startWatchdog() {
	go func() {
		last := simrt.Progress.Load()
		idle := 0
		for {
			time.Sleep(5 * time.Second)
			cur := simrt.Progress.Load()
			if cur == last {
				idle++
				if idle >= 24 {
					fmt.Fprintf(os.Stderr, "WATCHDOG: no scheduler progress for 120 s (%s)\n", watchdogSeed)
					os.Exit(2)
				}
			} else {
				idle = 0
				last = cur
			}
		}
	}()
}

func workerBatch(t *testing.T) {
	prop := os.Getenv("VERIF_PROP")
	tier := os.Getenv("VERIF_TIER")
	base := uint64(envInt("VERIF_SEED", 1))
	from := envInt("VERIF_FROM", 0)
	count := envInt("VERIF_COUNT", 100)
	enumFrom := envInt("VERIF_ENUM_FROM", -1)
	enumCount := envInt("VERIF_ENUM_COUNT", 0)
	outPath := os.Getenv("VERIF_OUT")
	budgetMs := envInt("VERIF_BUDGET_MS", 0)
	pd := props[prop]
	if pd == nil {
		t.Fatalf("unknown property %q", prop)
	}
	known := loadKnown(os.Getenv("VERIF_KNOWN"))
	startWatchdog()
	out := &BatchOut{Prop: prop, Tier: tier, From: from, Faults: map[string]int{}, Rare: map[string]int{}, Foreign: map[string]int{},
		Known: map[string]int{}, KnownMsg: map[string]string{}, Strategies: map[string]int{}}
	t0 := time.Now()
	schedSet := map[uint64]bool{}
	planSet := map[uint64]bool{}
	intSet := map[uint64]bool{}
	wantLog := os.Getenv("VERIF_LOGHASH") != ""

	one := func(idx int, plan *Plan, enumerated bool) bool {
		watchdogSeed = fmt.Sprintf("prop=%s base=%d idx=%d enum=%v", prop, base, idx, enumerated)
		res := Exec(t, plan, len(plan.Sched.Picks) > 0)
		out.Runs++
		if enumerated {
			out.Enumerated++
		}
		out.Steps += int64(res.Steps)
		out.SimNs += res.SimNs
		out.Strategies[plan.Sched.Strategy]++
		for k, v := range res.Faults {
			out.Faults[k] += v
		}
		for k, v := range res.Rare {
			out.Rare[k] += v
		}
		if res.Ch != nil {
			out.Faults["sched.preempt"] += res.Ch.Preempt
			out.Faults["sched.select_order"] += res.Ch.SelOrder
			out.Faults["sched.map_order"] += res.Ch.MapOrder
			out.Faults["sched.starve"] += res.Ch.StarveHit
		}
		for _, f := range plan.Faults {
			out.Faults[f]++
		}
		if res.Outcome == simrt.StepCap {
			out.StepCap++
		}
		sh := simrt.Hash64(res.Picks...)
		schedSet[sh] = true
		ph := planHash(plan)
		planSet[ph] = true
		if wantLog {
			out.LogHashes = append(out.LogHashes, res.LogHash)
		}
		if len(out.Samples) < 3 && (idx%37 == 0 || out.Runs == 1) {
			out.Samples = append(out.Samples, sampleOf(plan, res))
		}
		if pd.Foreign != nil {
			if f := pd.Foreign(res); f != "" {
				out.Foreign[f]++
				return true
			}
		}
		if pd.Interesting == nil || pd.Interesting(res) {
			out.Interesting++
			intSet[ph^sh] = true
		}
		vs := pd.Check(res)
		var fresh []Violation
		for _, v := range vs {
			if known[v.Sig] {
				out.Known[v.Sig]++
				if _, ok := out.KnownMsg[v.Sig]; !ok {
					out.KnownMsg[v.Sig] = v.Msg
				}
			} else {
				fresh = append(fresh, v)
			}
		}
		if len(fresh) == 0 {
			return true
		}
		v := fresh[0]
		// shrink, write replay, stop this batch
		rp := plan.Clone()
		rp.Sched.Picks = res.Picks
		rp.Sched.Perms = res.Perms
		small := shrink(t, pd, rp, v, known)
		path := writeReplay(prop, plan.Seed, small, v, res.LogHash)
		out.Violations = append(out.Violations, FoundViolation{Violation: v, Run: idx, Seed: plan.Seed, Replay: path})
		return false
	}

	ok := true
	if enumFrom >= 0 && (pd.Enum != nil || pd.EnumT != nil) {
		var n int
		var mk func(int) *Plan
		if pd.EnumT != nil {
			n, mk = pd.EnumT(t, tier)
		} else {
			n, mk = pd.Enum(tier)
		}
		for i := enumFrom; i < enumFrom+enumCount && i < n && ok; i++ {
			ok = one(i, mk(i), true)
		}
	}
	for i := from; i < from+count && ok; i++ {
		if budgetMs > 0 && time.Since(t0) > time.Duration(budgetMs)*time.Millisecond {
			break
		}
		seed := runSeed(base, prop, i)
		ok = one(i, pd.Gen(seed, tier, i), false)
	}
	out.WallMs = time.Since(t0).Milliseconds()
	for h := range schedSet {
		out.SchedHashes = append(out.SchedHashes, h)
	}
	for h := range planSet {
		out.PlanHashes = append(out.PlanHashes, h)
	}
	for h := range intSet {
		out.IntHashes = append(out.IntHashes, h)
	}
	sort.Slice(out.SchedHashes, func(i, j int) bool { return out.SchedHashes[i] < out.SchedHashes[j] })
	out.Probes = simrt.Probes()
	out.Lin = linStats
	b, _ := json.Marshal(out)
	if outPath != "" {
		if err := os.WriteFile(outPath, b, 0o644); err != nil {
			t.Fatal(err)
		}
	} else {
		os.Stderr.Write(b)
	}
}

func planHash(p *Plan) uint64 {
	q := *p
	q.Sched.Picks, q.Sched.Perms = nil, nil
	b, _ := json.Marshal(&q)
	return simrt.Hash64(string(b))
}

// sampleOf writes out one explored case compactly.
func sampleOf(p *Plan, r *Result) json.RawMessage {
	type actorS struct {
		Name string   `json:"name"`
		Ops  []string `json:"ops"`
	}
	var as []actorS
	for _, a := range p.Actors {
		s := actorS{Name: a.Name}
		for i, op := range a.Ops {
			if i >= 14 {
				s.Ops = append(s.Ops, fmt.Sprintf("... %d more", len(a.Ops)-i))
				break
			}
			d := op.K
			switch op.K {
			case "send":
				d = fmt.Sprintf("send %dB", len(op.Data))
				if len(op.Data) <= 24 {
					d = fmt.Sprintf("send %x", []byte(op.Data))
				}
			case "sleep":
				d = fmt.Sprintf("sleep %s", time.Duration(op.D))
			case "call":
				d = fmt.Sprintf("call key=%s cmd=%#04x timeout=%s", op.Call.Key, op.Call.Cmd, time.Duration(op.Call.Timeout))
			}
			s.Ops = append(s.Ops, d)
		}
		as = append(as, s)
	}
	var evs []string
	for i, e := range r.Hist {
		if i >= 40 {
			evs = append(evs, fmt.Sprintf("... %d more events", len(r.Hist)-i))
			break
		}
		evs = append(evs, fmt.Sprintf("s%d t=%s %s c%d id=%#04x ser=%d n=%d %s", e.Step, time.Duration(e.T), e.K, e.C, e.ID, e.Ser, e.N, e.Err))
	}
	firstPicks := r.Picks
	if len(firstPicks) > 25 {
		firstPicks = firstPicks[:25]
	}
	m := map[string]any{"seed": p.Seed, "note": p.Note, "strategy": p.Sched, "actors": as, "steps": r.Steps,
		"simulated": time.Duration(r.SimNs).String(), "history_head": evs, "schedule_head": firstPicks, "faults": r.Faults}
	b, _ := json.Marshal(m)
	return b
}

// workerDetHash prints "<idx> <loghash> <steps>" per run: the determinism self-test compares these lines
// across processes, GOMAXPROCS values and worker counts.
func workerDetHash(t *testing.T) {
	prop := os.Getenv("VERIF_PROP")
	tier := os.Getenv("VERIF_TIER")
	base := uint64(envInt("VERIF_SEED", 1))
	from := envInt("VERIF_FROM", 0)
	count := envInt("VERIF_COUNT", 50)
	pd := props[prop]
	if pd == nil {
		t.Fatalf("unknown property %q", prop)
	}
	startWatchdog()
	for i := from; i < from+count; i++ {
		plan := pd.Gen(runSeed(base, prop, i), tier, i)
		res := Exec(t, plan, false)
		fmt.Fprintf(os.Stderr, "DET %s %d %016x %d %d\n", prop, i, res.LogHash, res.Steps, len(res.Hist))
	}
}

// TestEnumCount tells the driver how many enumerated plans a property has for a tier.
func TestEnumCount(t *testing.T) {
	prop := os.Getenv("VERIF_PROP")
	if prop == "" {
		t.Skip()
	}
	pd := props[prop]
	n := 0
	if pd != nil && pd.Enum != nil {
		n, _ = pd.Enum(os.Getenv("VERIF_TIER"))
	}
	if pd != nil && pd.EnumT != nil {
		n, _ = pd.EnumT(t, os.Getenv("VERIF_TIER"))
	}
	fmt.Printf("ENUM %d\n", n)
}

// TestMain: in a -race build the testing package fails the test as soon as the detector has reported
// anything; the verdict of a C18 run is the filtered report list in the output file, not the exit code.
func TestMain(m *testing.M) {
	code := m.Run()
	if simrt.RaceMode && os.Getenv("VERIF_MODE") != "" && code == 1 {
		code = 0
	}
	os.Exit(code)
}
