package harness

import (
	"bytes"

	"github.com/cuteLittleDevil/go-jt808/protocol/model"
	"github.com/cuteLittleDevil/go-jt808/shared/consts"

	"verifsim/gen/attachment"
	"verifsim/simnet"
	"verifsim/simrt"
)

type attHarness struct {
	w   *world
	srv *attachment.GoJT808
}

// FileSnap is a deep copy of one file record of a PackageProgress.
type FileSnap struct {
	Name     string `json:"name"`
	FileSize uint32 `json:"file_size"`
	Cur      uint32 `json:"cur"`
	Body     Hex    `json:"body,omitempty"`
	BodyLen  int    `json:"body_len"`
}

// AttEv is the attachment-side payload of a file_cb event.
type AttEv struct {
	Stage   int        `json:"stage"`
	Files   []FileSnap `json:"files"`
	CurName string     `json:"cur_name,omitempty"`
	Err     string     `json:"err,omitempty"`
	MsgID   uint16     `json:"msg_id,omitempty"`
}

type recFileEventer struct {
	w    *world
	conn int
}

//go:norace
func (w *world) startAttachment() {
	h := &attHarness{w: w}
	w.att = h
	opts := []attachment.Option{
		attachment.WithHostPorts(w.plan.Att.Addr),
		attachment.WithActiveSafetyType(consts.ActiveSafetyType(w.plan.Att.Dialect)),
	}
	if !w.plan.Att.DefaultFile {
		opts = append(opts, attachment.WithFileEventerFunc(func() attachment.FileEventer {
			return &recFileEventer{w: w, conn: connOfPeer(simnet.LastAccepted)}
		}))
	}
	if w.plan.Att.CustomData {
		dialect := consts.ActiveSafetyType(w.plan.Att.Dialect)
		opts = append(opts, attachment.WithDataHandleFunc(func() attachment.DataHandler { return newUserDataHandler(dialect) }))
	}
	h.srv = attachment.New(opts...)
	simrt.GoNamed("att.Run", "att.Run", h.srv.Run)
}

//go:norace
func (r *recFileEventer) OnEvent(p *attachment.PackageProgress) {
	if simrt.RaceMode {
		return
	}
	a := AttEv{Stage: int(p.ProgressStage)}
	names := make([]string, 0, len(p.Record))
	for k := range p.Record {
		names = append(names, k)
	}
	sortStrings(names)
	for _, k := range names {
		v := p.Record[k]
		if v == nil {
			continue
		}
		a.Files = append(a.Files, FileSnap{Name: k, FileSize: v.FileSize, Cur: v.CurrentSize, Body: bytes.Clone(v.StreamBody), BodyLen: len(v.StreamBody)})
	}
	if cp := p.ExtensionFields.CurrentPackage; cp != nil {
		a.CurName = cp.FileName
	}
	if p.ExtensionFields.Err != nil {
		a.Err = p.ExtensionFields.Err.Error()
	}
	if m := p.ExtensionFields.RecentTerminalMessage; m != nil && m.Header != nil {
		a.MsgID = m.Header.ID
	}
	r.w.attEvs = append(r.w.attEvs, a)
	r.w.rec(Ev{K: KFile, C: r.conn, Stage: a.Stage, Ref: len(r.w.attEvs), Err: a.Err, ID: a.MsgID, G: simrt.CurName()})
}

//go:norace
func sortStrings(s []string) {
	for i := 1; i < len(s); i++ {
		for j := i; j > 0 && s[j] < s[j-1]; j-- {
			s[j], s[j-1] = s[j-1], s[j]
		}
	}
}

// userDataHandler is a data handler as a user of WithDataHandleFunc writes it: the package's base handler embedded,
// the record table kept by the user's own code.
type userDataHandler struct {
	attachment.BaseJT808DataHandler[*model.T0x1210, *model.T0x1211, *model.T0x1212]
}

//go:norace
func newUserDataHandler(as consts.ActiveSafetyType) *userDataHandler {
	return &userDataHandler{BaseJT808DataHandler: attachment.BaseJT808DataHandler[*model.T0x1210, *model.T0x1211, *model.T0x1212]{
		T0x1210: &model.T0x1210{P9208AlarmSign: model.P9208AlarmSign{ActiveSafetyType: as}},
		T0x1211: &model.T0x1211{},
		T0x1212: &model.T0x1212{},
	}}
}

func (h *userDataHandler) OnPackageProgressEvent(progress *attachment.PackageProgress) {
	h.BaseJT808DataHandler.OnPackageProgressEvent(progress)
	switch h.Command {
	case consts.T1210AlarmAttachInfoMessage:
		for _, v := range h.T0x1210.T0x1210AlarmItemList {
			progress.Record[v.FileName] = &attachment.Package{FileName: v.FileName, FileSize: v.FileSize,
				OffsetDataRecord: map[int][]byte{}, OffsetRecord: map[int]int{}}
		}
	case consts.T1212FileUploadComplete:
		if v, ok := progress.Record[h.T0x1212.FileName]; ok {
			h.T0x1212.P0x9212RetransmitPacketList = v.StatisticalMissSegments()
			if len(h.T0x1212.P0x9212RetransmitPacketList) > 0 {
				progress.ProgressStage = attachment.ProgressStageSupplementary
			}
		}
	}
}
