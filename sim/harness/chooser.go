package harness

import (
	"strings"

	"verifsim/simrt"
)

// rng is splitmix64.
type rng struct{ s uint64 }

//go:norace
func (r *rng) next() uint64 {
	r.s += 0x9e3779b97f4a7c15
	z := r.s
	z = (z ^ (z >> 30)) * 0xbf58476d1ce4e5b9
	z = (z ^ (z >> 27)) * 0x94d049bb133111eb
	return z ^ (z >> 31)
}

//go:norace
func (r *rng) intn(n int) int {
	if n <= 1 {
		return 0
	}
	return int(r.next() % uint64(n))
}

//go:norace
func (r *rng) chance(pct int) bool { return r.intn(100) < pct }

//go:norace
func (r *rng) bytes(n int) []byte {
	b := make([]byte, n)
	for i := range b {
		b[i] = byte(r.next())
	}
	return b
}

//go:norace
func (r *rng) pick(xs ...int) int { return xs[r.intn(len(xs))] }

//go:norace
func newRng(seed uint64) *rng { return &rng{s: seed} }

type permRec struct {
	site string
	p    []int
}

// PermsMap folds the recorded permutations into the per-site form of a replay file (single goroutine).
func (c *recChooser) PermsMap() map[string][][]int {
	m := map[string][][]int{}
	for _, r := range c.permLog {
		m[r.site] = append(m[r.site], r.p)
	}
	return m
}

// recChooser makes seeded choices by strategy and records them; or replays a recorded schedule.
type recChooser struct {
	r        *rng
	opts     SchedOpts
	replay   bool
	pi       int
	siteIdx  map[string]int // replay: read-only after construction
	permCur  []int
	permLog  []permRec
	Picks    []string
	Perms    map[string][][]int
	last     string
	explicit map[string]bool // env actor names never chosen unless recorded
	// statistics
	Preempt   int
	SelOrder  int
	MapOrder  int
	StarveHit int
	Skipped   int
	multiSel  int
}

//go:norace
func newChooser(p *Plan, replay bool) *recChooser {
	c := &recChooser{r: newRng(p.Seed ^ 0xabcdef1234567), opts: p.Sched, replay: replay,
		siteIdx: map[string]int{}, explicit: map[string]bool{}}
	for site := range p.Sched.Perms {
		c.siteIdx[site] = len(c.permCur)
		c.permCur = append(c.permCur, 0)
	}
	for _, a := range p.Actors {
		if a.ExplicitOnly {
			c.explicit["E:"+a.Name] = true
		}
	}
	return c
}

//go:norace
func (c *recChooser) Pick(step int, cands []simrt.Cand) int {
	k := c.pick(cands)
	name := cands[k].Name
	if c.last != "" && name != c.last && !cands[k].IsEnv {
		for _, cd := range cands {
			if cd.Name == c.last {
				c.Preempt++
				break
			}
		}
	}
	c.last = name
	c.Picks = append(c.Picks, name)
	return k
}

//go:norace
func (c *recChooser) pick(cands []simrt.Cand) int {
	if c.replay {
		for c.pi < len(c.opts.Picks) {
			want := c.opts.Picks[c.pi]
			c.pi++
			for i, cd := range cands {
				if cd.Name == want {
					return i
				}
			}
			c.Skipped++
		}
		return c.fifo(cands)
	}
	// candidates a strategy may choose
	var ok []int
	for i, cd := range cands {
		if cd.IsEnv && c.explicit[cd.Name] {
			continue
		}
		ok = append(ok, i)
	}
	if len(ok) == 0 {
		return 0
	}
	switch c.opts.Strategy {
	case "fifo":
		return c.fifo(cands)
	case "envfirst":
		for _, i := range ok {
			if cands[i].IsEnv && cands[i].Name != "E:clock" {
				return i
			}
		}
		return ok[c.r.intn(len(ok))]
	case "sticky":
		if c.last != "" && c.r.chance(c.opts.Sticky) {
			for _, i := range ok {
				if cands[i].Name == c.last {
					return i
				}
			}
		}
		return ok[c.r.intn(len(ok))]
	case "starve":
		var pref []int
		for _, i := range ok {
			starved := false
			for _, s := range c.opts.Starve {
				if (s == "env" && cands[i].IsEnv) || (!cands[i].IsEnv && strings.Contains(cands[i].Role, s)) {
					starved = true
				}
			}
			if !starved {
				pref = append(pref, i)
			}
		}
		if len(pref) > 0 {
			if len(pref) < len(ok) {
				c.StarveHit++
			}
			return pref[c.r.intn(len(pref))]
		}
		return ok[c.r.intn(len(ok))]
	default:
		return ok[c.r.intn(len(ok))]
	}
}

// fifo: lowest goroutine first, environment only when nothing else is runnable; never the jitter clock and
// never an explicit-only actor.
//
//go:norace
func (c *recChooser) fifo(cands []simrt.Cand) int {
	for i, cd := range cands {
		if !cd.IsEnv {
			return i
		}
	}
	for i, cd := range cands {
		if cd.Name != "E:clock" && !c.explicit[cd.Name] {
			return i
		}
	}
	return 0
}

//go:norace
func (c *recChooser) Perm(site string, n int) []int {
	p := make([]int, n)
	for i := range p {
		p[i] = i
	}
	if c.replay {
		if si, ok := c.siteIdx[site]; ok {
			lst := c.opts.Perms[site]
			i := c.permCur[si]
			c.permCur[si] = i + 1
			if i < len(lst) && len(lst[i]) == n {
				copy(p, lst[i])
			}
		}
	} else if c.opts.Strategy != "fifo" {
		for i := n - 1; i > 0; i-- {
			j := c.r.intn(i + 1)
			p[i], p[j] = p[j], p[i]
		}
	}
	ident := true
	for i := range p {
		if p[i] != i {
			ident = false
		}
	}
	if !ident {
		if strings.HasSuffix(site, "select") {
			c.SelOrder++
		} else {
			c.MapOrder++
		}
	}
	c.permLog = append(c.permLog, permRec{site, append([]int(nil), p...)})
	return p
}
