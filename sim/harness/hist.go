package harness

// Ev is one entry of a run's recorded history. Step is the simulator's global event sequence number.
type Ev struct {
	Step int    `json:"s"`
	T    int64  `json:"t"` // simulated ns since the bubble's epoch
	K    string `json:"k"`
	C    int    `json:"c"`           // plan connection index, -1 if none
	G    string `json:"g,omitempty"` // goroutine
	// message view
	ID       uint16 `json:"id,omitempty"`
	Ser      uint16 `json:"ser,omitempty"`
	Phone    string `json:"phone,omitempty"`
	Ver      int    `json:"ver,omitempty"`
	Body     Hex    `json:"body,omitempty"`
	Raw      Hex    `json:"raw,omitempty"`
	SubSum   uint16 `json:"sum,omitempty"`
	SubNo    uint16 `json:"no,omitempty"`
	Complete bool   `json:"complete,omitempty"`
	PSeq     uint16 `json:"pseq,omitempty"`
	PCmd     uint16 `json:"pcmd,omitempty"`
	PData    Hex    `json:"pdata,omitempty"`
	Active   bool   `json:"active,omitempty"`
	Err      string `json:"err,omitempty"`
	Key      string `json:"key,omitempty"`
	N        int    `json:"n,omitempty"`
	D        int64  `json:"d,omitempty"` // a duration (ns), e.g. a call's timeout
	Ref      int    `json:"ref,omitempty"`
	Who      string `json:"who,omitempty"` // handler | eventer
	Stage    int    `json:"stage,omitempty"`
	Note     string `json:"note,omitempty"`
}

// Event kinds.
const (
	KDial     = "dial"
	KDeliver  = "deliver" // env delivered a chunk (N bytes, Ref = frame index+1 if it completes a frame)
	KFin      = "fin"
	KRst      = "rst"
	KFailW    = "failw"
	KSrvRead  = "sread"  // server Read returned (N bytes / Err)
	KSrvWrite = "swrite" // server wrote Raw on conn C (Err if it failed)
	KSrvClose = "sclose"
	KRead     = "read_cb"  // OnReadExecutionEvent
	KWrite    = "write_cb" // OnWriteExecutionEvent
	KNotSup   = "notsup"
	KJoin     = "join"
	KLeave    = "leave"
	KCall     = "call"
	KRet      = "ret"
	KCrash    = "crash"
	KFile     = "file_cb" // attachment FileEventer.OnEvent
	KMark     = "mark"
	KQuiet    = "quiet"
)

// Violation is what an oracle reports.
type Violation struct {
	Prop string `json:"prop"`
	Rule string `json:"rule"` // stable rule id
	Sig  string `json:"sig"`  // signature for the known-findings file: rule + identifying site/input class
	Msg  string `json:"msg"`
	Step int    `json:"step"`
}
