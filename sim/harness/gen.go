package harness

import (
	"fmt"

	"verifsim/ref"
)

const svcAddr = "10.9.8.7:808"
const attAddr = "10.9.8.7:10808"

// genCtx carries the per-run generator state.
type genCtx struct {
	r    *rng
	tier string
	p    *Plan
}

func newPlan(prop string, seed uint64, tier string) (*Plan, *genCtx) {
	p := &Plan{Prop: prop, Seed: seed, Tier: tier, Target: "service",
		Svc:    SvcOpts{Filter: true, Handlers: "default", Addr: svcAddr},
		Att:    AttOpts{Addr: attAddr, Dialect: 1},
		Expect: &Expect{Extra: map[string]int64{}}}
	g := &genCtx{r: newRng(seed), tier: tier, p: p}
	return p, g
}

// phone makes a BCD phone (6 or 10 bytes) with decimal digits only.
func (g *genCtx) phone(ver19 bool) []byte {
	n := 6
	if ver19 {
		n = 10
	}
	b := make([]byte, n)
	if g.r.chance(3) {
		return b // the all-zero number
	}
	lead := g.r.intn(n) // some leading zero bytes
	if g.r.chance(60) {
		lead = g.r.intn(2)
	}
	for i := lead; i < n; i++ {
		b[i] = byte(g.r.intn(10))<<4 | byte(g.r.intn(10))
	}
	if b[n-1] == 0 {
		b[n-1] = 0x01
	}
	return b
}

// distinctPhone returns a phone whose digit string differs from all in used.
func (g *genCtx) distinctPhone(ver19 bool, used map[string]bool) []byte {
	for {
		p := g.phone(ver19)
		k := ref.PhoneDigits(p)
		if !used[k] {
			used[k] = true
			return p
		}
	}
}

// body makes a random body of length n with the given flavour: 0 escape-free, 1 escape-dense, 2 mixed.
func (g *genCtx) body(n, flavour int) []byte {
	b := make([]byte, n)
	for i := range b {
		switch flavour {
		case 0:
			v := byte(g.r.next())
			for v == 0x7e || v == 0x7d {
				v = byte(g.r.next())
			}
			b[i] = v
		case 1:
			b[i] = []byte{0x7e, 0x7d, 0x01, 0x02, 0x7e, 0x7d}[g.r.intn(6)]
		case 3: // nothing but escape bytes: the escaped frame is about twice the body
			b[i] = []byte{0x7e, 0x7d}[g.r.intn(2)]
		default:
			if g.r.chance(15) {
				b[i] = []byte{0x7e, 0x7d, 0x01, 0x02}[g.r.intn(4)]
			} else {
				b[i] = byte(g.r.next())
			}
		}
	}
	return b
}

// bodyLen draws a body length with emphasis on boundaries.
func (g *genCtx) bodyLen(max int) int {
	switch g.r.intn(10) {
	case 0:
		return 0
	case 1:
		return g.r.intn(4)
	case 2:
		if max >= 1023 {
			return g.r.pick(999, 1000, 1001, 1022, 1023)
		}
		return max
	case 3, 4:
		return g.r.intn(max + 1)
	default:
		m := max
		if m > 80 {
			m = 80
		}
		return g.r.intn(m + 1)
	}
}

// wellFormedBody returns a body for a terminal message ID that the default handlers accept (written from
// the standard's layouts; values arbitrary).
func (g *genCtx) wellFormedBody(id uint16, ver19 bool, phone []byte) []byte {
	r := g.r
	loc := func() []byte { // 28-byte basic location block
		b := r.bytes(28)
		// alarm and status words: often zero or a single bit (the "alarm raised, then cleared" sequences)
		for _, off := range []int{0, 4} {
			switch r.intn(5) {
			case 0, 1:
				copy(b[off:], []byte{0, 0, 0, 0})
			case 2:
				copy(b[off:], []byte{0, 0, 0, 0})
				b[off+r.intn(4)] = 1 << uint(r.intn(8))
			}
		}
		// BCD time YY-MM-DD-hh-mm-ss; now and then nibbles that are not decimal digits
		copy(b[22:], []byte{0x24, 0x10, 0x01, 0x12, 0x30, 0x45})
		if r.chance(12) {
			for i := 22; i < 28; i++ {
				if r.chance(60) {
					b[i] = []byte{0xaa, 0xa1, 0x1a, 0xff, 0x99, 0x00, 0xfa}[r.intn(7)]
				}
			}
		}
		return b
	}
	switch id {
	case 0x0002:
		return nil
	case 0x0001:
		return append(r.bytes(4), byte(r.intn(5)))
	case 0x0100:
		if ver19 {
			b := r.bytes(4)
			b = append(b, padStr("MANUF", 11)...)
			b = append(b, padStr("MODEL-X", 30)...)
			b = append(b, padStr("TID123", 30)...)
			b = append(b, 1)
			return append(b, []byte("A12345")...)
		}
		b := r.bytes(4)
		b = append(b, padStr("MANUF", 5)...)
		b = append(b, padStr("MODEL-X", 20)...)
		b = append(b, padStr("TID1234", 7)...)
		b = append(b, 1)
		return append(b, []byte("A12345")...)
	case 0x0102:
		code := []byte(ref.PhoneDigits(phone))
		if r.chance(30) {
			code = []byte("wrong-code")
		}
		if ver19 && r.chance(8) {
			code = nil // an empty code: the 2019 body is exactly its 36 fixed bytes
		}
		if ver19 {
			if r.chance(20) {
				code = padStr(string(code), r.pick(32, 40, 64)) // fixed-width, zero-padded code field
			}
			b := []byte{byte(len(code))}
			b = append(b, code...)
			imei := "123456789012345"
			if r.chance(25) {
				imei = imei[:r.intn(15)] // a shorter identifier, zero-padded to the field's 15 bytes
			}
			b = append(b, padStr(imei, 15)...)
			return append(b, padStr("v1.0", 20)...)
		}
		return code
	case 0x0200:
		b := loc()
		if r.chance(50) {
			b = append(b, 0x01, 4, 0, 0, 0, byte(r.intn(200))) // mileage
		}
		if r.chance(30) {
			b = append(b, 0x30, 1, byte(r.intn(32))) // signal strength
		}
		return b
	case 0x0704:
		n := 1 + r.intn(3)
		b := []byte{0, byte(n), byte(r.intn(2))}
		for i := 0; i < n; i++ {
			b = append(b, 0, 28)
			b = append(b, loc()...)
		}
		return b
	case 0x0800:
		return append(r.bytes(4), byte(r.intn(3)), byte(r.intn(5)), byte(r.intn(8)), byte(1+r.intn(4)))
	case 0x0801:
		b := r.bytes(8)
		b = append(b, loc()...)
		if r.chance(15) {
			return b // exactly the 36 fixed bytes, no media data
		}
		return append(b, r.bytes(r.intn(40))...)
	case 0x0104:
		return append(r.bytes(2), 0)
	case 0x0805:
		return append(r.bytes(2), 0, 0, 0)
	case 0x1003:
		return r.bytes(10)
	case 0x1005:
		b := []byte{0x24, 0x10, 0x01, 0x12, 0x30, 0x45, 0x24, 0x10, 0x01, 0x12, 0x40, 0x45}
		return append(b, r.bytes(4)...)
	case 0x1205:
		return append(r.bytes(2), 0, 0, 0, 0)
	case 0x1206:
		return append(r.bytes(2), 0)
	case 0x1210:
		return attach1210Body(g.p.Svc.Dialect, "TERMID1", "ALARM-ID-0001", []UpFile{{Name: "a.jpg", Data: []byte{1, 2, 3}}})
	case 0x1211, 0x1212:
		name := "f" + fmt.Sprint(r.intn(100)) + ".bin"
		if r.chance(15) {
			name = "" // a zero-length name is a valid encoding
		}
		b := []byte{byte(len(name))}
		b = append(b, name...)
		b = append(b, byte(r.intn(5)))
		return append(b, r.bytes(4)...)
	}
	return r.bytes(r.intn(20))
}

func padStr(s string, n int) []byte {
	b := make([]byte, n)
	copy(b, s)
	return b
}

// attach1210Body builds a 0x1210 body in the given dialect's layout.
func attach1210Body(dialect int, termID, alarmID string, files []UpFile) []byte {
	idLen, signLen := 7, 16
	switch dialect {
	case 2: // HLJ: no leading terminal ID; sign = 30+6+1+1
		idLen, signLen = 0, 38
	case 3: // GD
		idLen, signLen = 30, 40
	case 4: // HN
		idLen, signLen = 7, 32
	case 5: // SC
		idLen, signLen = 30, 39
	}
	signID := 7
	if dialect == 2 || dialect == 3 || dialect == 5 {
		signID = 30
	}
	var b []byte
	b = append(b, padStr(termID, idLen)...)
	sign := make([]byte, signLen)
	copy(sign, termID)
	signN := byte(len(files))
	if len(alarmID) > 0 && alarmID[len(alarmID)-1]%5 == 0 {
		signN = alarmID[len(alarmID)-1] % 7 // the number inside the alarm sign is informational and need not agree
	}
	copy(sign[signID:], []byte{0x24, 0x10, 0x01, 0x12, 0x30, 0x45, 1, signN})
	b = append(b, sign...)
	b = append(b, padStr(alarmID, 32)...)
	b = append(b, 0, byte(len(files)))
	for _, f := range files {
		b = append(b, byte(len(f.Name)))
		b = append(b, f.Name...)
		n := uint32(f.size())
		b = append(b, byte(n>>24), byte(n>>16), byte(n>>8), byte(n))
	}
	return b
}

// segment cuts stream into chunks according to a style and returns send ops. frameEnds are the offsets (exclusive)
// at which frames end; chunks are at most maxChunk bytes.
func (g *genCtx) segment(stream []byte, frameEnds []int, style string, maxChunk int) []Op {
	if maxChunk <= 0 {
		maxChunk = 1023
	}
	isEnd := map[int]int{}
	for i, e := range frameEnds {
		isEnd[e] = i + 1
	}
	var cuts []int
	switch style {
	case "frame": // one frame per read
		cuts = append(cuts, frameEnds...)
	case "bytewise":
		for i := 1; i <= len(stream); i++ {
			cuts = append(cuts, i)
		}
	case "coalesce":
		i := 0
		for i < len(frameEnds) {
			i += 1 + g.r.intn(4)
			if i > len(frameEnds) {
				i = len(frameEnds)
			}
			cuts = append(cuts, frameEnds[i-1])
		}
	case "whole":
		cuts = []int{len(stream)}
	case "nasty": // cuts inside headers, inside escape pairs, right before/after delimiters
		for i := 1; i < len(stream); i++ {
			b := stream[i]
			prev := stream[i-1]
			switch {
			case prev == 0x7d && g.r.chance(60):
				cuts = append(cuts, i)
			case b == 0x7e && g.r.chance(40):
				cuts = append(cuts, i)
			case prev == 0x7e && g.r.chance(30):
				cuts = append(cuts, i)
			case g.r.chance(2):
				cuts = append(cuts, i)
			}
		}
		cuts = append(cuts, len(stream))
	default: // random k cuts
		k := g.r.intn(len(stream)/20 + 3)
		set := map[int]bool{}
		for i := 0; i < k; i++ {
			set[1+g.r.intn(len(stream))] = true
		}
		set[len(stream)] = true
		for c := range set {
			cuts = append(cuts, c)
		}
		sortInts(cuts)
	}
	// enforce maxChunk
	var ops []Op
	prev := 0
	emit := func(to int) {
		for prev < to {
			n := to - prev
			if n > maxChunk {
				n = maxChunk
			}
			end := prev + n
			op := Op{K: "send", Data: append([]byte(nil), stream[prev:end]...)}
			if fi, ok := isEnd[end]; ok {
				op.End = true
				op.Frame = fi
			} else {
				// a chunk may contain several complete frames and end mid-frame; Frame marks the last complete one
				for e := end; e > prev; e-- {
					if fi, ok := isEnd[e]; ok {
						op.Frame = fi
						break
					}
				}
			}
			ops = append(ops, op)
			prev = end
		}
	}
	last := 0
	for _, c := range cuts {
		if c <= last || c > len(stream) {
			continue
		}
		emit(c)
		last = c
	}
	if prev < len(stream) {
		emit(len(stream))
	}
	return ops
}

func sortInts(a []int) {
	for i := 1; i < len(a); i++ {
		for j := i; j > 0 && a[j] < a[j-1]; j-- {
			a[j], a[j-1] = a[j-1], a[j]
		}
	}
}

var segStyles = []string{"frame", "bytewise", "coalesce", "whole", "nasty", "random", "random", "frame"}

func (g *genCtx) segStyle() string { return segStyles[g.r.intn(len(segStyles))] }

// sched draws the run's scheduling strategy (swarm).
func (g *genCtx) sched() SchedOpts {
	switch g.r.intn(8) {
	case 0:
		return SchedOpts{Strategy: "fifo"}
	case 1:
		return SchedOpts{Strategy: "envfirst"}
	case 2, 3:
		return SchedOpts{Strategy: "sticky", Sticky: 50 + g.r.intn(45)}
	case 4:
		roles := [][]string{{"go:c.write"}, {"go:c.reader"}, {"sessionManager.run"}, {"env"}, {"caller"}, {"go:func"}}
		return SchedOpts{Strategy: "starve", Starve: roles[g.r.intn(len(roles))]}
	default:
		return SchedOpts{Strategy: "uniform"}
	}
}
