package harness

import (
	"fmt"

	"verifsim/ref"
)

func genC16(seed uint64, tier string, idx int) *Plan {
	p, g := newAttPlan("C16", seed, tier)
	v19 := g.r.chance(50)
	ci := g.addConn("attachment", v19, g.phone(v19))
	mc := 6
	cm := 300
	if g.r.chance(20) {
		mc, cm = 40, 8 // many small chunks: many gaps, single-byte gaps, adjacent chunks
	}
	if tier == "thorough" && g.r.chance(5) {
		mc, cm = 300, 4
	}
	holes := 0
	if g.r.chance(2) {
		holes = g.r.pick(60, 100, 121, 122, 126, 130, 200, 255) // many gaps: every second byte of a file missing
	}
	sparse := 0
	if holes == 0 && g.r.chance(1) {
		sparse = g.r.pick(65537, 70000, 131080, 300000, 0x7fffff00, 0x80000400, 0x90000100, 0xfffff000) // missing stretches longer than 64 KiB, offsets beyond 2 GiB
	}
	g.genUpload(ci, attOpts{maxFiles: 3, maxChunks: mc, chunkMax: cm, dups: g.r.chance(35), withhold: sparse == 0, grouped: g.r.chance(40), holes: holes, sparse: sparse, second: g.r.chance(12), again1211: true, reuse: g.r.chance(12)})
	p.Sched = g.sched()
	p.MaxStep = 300000
	return p
}

func checkC16(r *Result) []Violation {
	var vs []Violation
	bad := func(rule, msg string, step int) {
		vs = append(vs, Violation{Prop: "C16", Rule: "C16." + rule, Sig: "C16." + rule, Msg: msg, Step: step})
	}
	for _, up := range r.Plan.Expect.Uploads {
		ci := up.Conn
		units := r.Plan.Expect.Frames[ci]
		if ab, _, _ := attAborted(r, ci); ab {
			continue // an aborted session is C15's business
		}
		ctl, v := checkAttReplies(r, "C16", ci)
		if v != nil {
			if v.Rule == "C16.extra_reply" {
				v.Rule, v.Sig = "C16.unsolicited_completion_response", "C16.unsolicited_completion_response"
				return append(vs, *v)
			}
			if v.Rule == "C16.wrong_reply" || v.Rule == "C16.undecodable_reply" {
				return append(vs, *v)
			}
			continue
		}
		for _, c := range ctl {
			if c.unit.ID != 0x1212 || c.reply == nil {
				continue
			}
			if c.over {
				// known finding: the ranges do not fit into one frame and the encoder neither fragments nor refuses;
				// the content of the response is still judged below
				vs = append(vs, Violation{Prop: "C16", Rule: "C16.reply_exceeds_frame", Sig: "C16.reply_exceeds_frame:0x9212_body_over_1023",
					Msg: fmt.Sprintf("conn %d: the 0x9212 for %q has a body of %d bytes; a frame's length field ends at 1023, the length spills into the encryption bits and no terminal can decode the frame", ci, c.unit.Name, len(c.reply.Body)), Step: c.ev.Step})
			}
			b, err := ref.ParseP9212(c.reply.Body)
			if err != nil {
				bad("malformed_9212", fmt.Sprintf("conn %d: 0x9212 body does not parse: %v", ci, err), c.ev.Step)
				return vs
			}
			f := up.Files[c.unit.File-1]
			var got []ivl
			for _, u := range units[:c.idx] {
				if u.Chunk && u.File == c.unit.File {
					got = append(got, ivl{u.Off, u.Off + len(u.Body)})
				}
			}
			want := missingRanges(f.size(), got)
			if len(want) > 255 {
				continue // more gaps than the one-byte count can carry: outside the property's domain
			}
			if len(want) == 0 {
				if b.Result != 0 || len(b.Ranges) != 0 {
					bad("retransmit_though_complete", fmt.Sprintf("conn %d: every byte of %q (%d) had been received, but the 0x9212 says result=%d ranges=%v", ci, f.Name, f.size(), b.Result, b.Ranges), c.ev.Step)
					return vs
				}
				continue
			}
			if b.Result == 0 {
				bad("complete_though_missing", fmt.Sprintf("conn %d: 0x9212 says %q complete, missing byte ranges are %v", ci, f.Name, want), c.ev.Step)
				return vs
			}
			if fmt.Sprint(b.Ranges) != fmt.Sprint(want) {
				bad("wrong_ranges", fmt.Sprintf("conn %d: 0x9212 for %q (%d bytes) lists %v, the maximal missing ranges are %v", ci, f.Name, f.size(), b.Ranges, want), c.ev.Step)
				return vs
			}
		}
	}
	return vs
}

func init() {
	register(&propDef{ID: "C16", Gen: genC16, Check: withCrashRule("C16", checkC16),
		Interesting: func(r *Result) bool {
			for _, e := range r.Hist {
				if e.K == KSrvWrite && e.Err == "" {
					if f, err := ref.Decode(e.Raw); err == nil && f.ID == 0x9212 {
						if b, err := ref.ParseP9212(f.Body); err == nil && b.Result != 0 {
							return true
						}
					}
				}
			}
			return false
		}})
}
