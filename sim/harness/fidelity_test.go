package harness

import (
	"bytes"
	"fmt"
	"net"
	"os"
	"testing"
	"time"

	realatt "github.com/cuteLittleDevil/go-jt808/attachment"
	realsvc "github.com/cuteLittleDevil/go-jt808/service"
)

// TestFidelity compares, for sequential single-connection conversations, the bytes the servers write over
// simnet (rewritten copies under the simulator) with the bytes the UNMODIFIED packages of /repo write over
// real loopback TCP. It validates the shim and the rewriter; it is never used for a verdict.
func TestFidelity(t *testing.T) {
	if os.Getenv("VERIF_FIDELITY") == "" {
		t.Skip("VERIF_FIDELITY not set")
	}
	n := envInt("VERIF_COUNT", 20)
	port := 23000 + os.Getpid()%20000
	svcAddrReal := fmt.Sprintf("127.0.0.1:%d", port)
	attAddrReal := fmt.Sprintf("127.0.0.1:%d", port+1)
	go realsvc.New(realsvc.WithHostPorts(svcAddrReal)).Run()
	go realatt.New(realatt.WithHostPorts(attAddrReal), realatt.WithFileEventerFunc(func() realatt.FileEventer { return nopFileEventer{} })).Run()
	waitListen(t, svcAddrReal)
	waitListen(t, attAddrReal)
	compared, frames := 0, 0
	for i := 0; i < n; i++ {
		// JT808 conversation: one connection, one frame per read, sequential schedule
		p, g := newPlan("FID", 0xF1D000+uint64(i), "fidelity")
		v19 := i%2 == 1
		ci := g.addConn("service", v19, g.phone(v19))
		var fr []SentFrame
		for k := 0; k < 3+g.r.intn(12); k++ {
			id := []uint16{0x0002, 0x0100, 0x0102, 0x0200, 0x0704, 0x0801, 0x0800, 0x1005, 0x0705, 0x1210}[g.r.intn(10)]
			fr = append(fr, g.mkFrame(ci, id, g.randSerial(), g.wellFormedBody(id, v19, p.Conns[ci].Phone)))
		}
		g.connActor(ci, fr, "frame", 100)
		p.Sched = SchedOpts{Strategy: "fifo"}
		sim := Exec(t, p, false)
		var want []byte
		for _, b := range sim.Out[ci] {
			want = append(want, b...)
			frames++
		}
		got := realConversation(t, svcAddrReal, p.Actors[0], len(want))
		if !bytes.Equal(got, want) {
			t.Fatalf("fidelity: JT808 conversation %d: simulated server wrote %x, real server wrote %x", i, want, got)
		}
		compared++
	}
	for i := 0; i < n; i++ {
		// attachment session in the server's default dialect (JS), one unit per read
		p, g := newPlan("FID", 0xF1D100+uint64(i), "fidelity")
		p.Target = "attachment"
		p.Att.Dialect = 1
		ci := g.addConn("attachment", i%2 == 1, g.phone(i%2 == 1))
		g.genUpload(ci, attOpts{maxFiles: 2, maxChunks: 4, chunkMax: 300, withhold: i%3 == 0})
		a := p.Actors[0]
		// re-segment: one unit per read
		units := p.Expect.Frames[ci]
		a.Ops = []Op{{K: "dial"}}
		for k, u := range units {
			a.Ops = append(a.Ops, Op{K: "send", Data: u.Raw, End: true, Frame: k + 1}, Op{K: "quiet"})
		}
		p.Sched = SchedOpts{Strategy: "fifo"}
		sim := Exec(t, p, false)
		var want []byte
		for _, b := range sim.Out[ci] {
			want = append(want, b...)
			frames++
		}
		got := realConversation(t, attAddrReal, a, len(want))
		if !bytes.Equal(got, want) {
			t.Fatalf("fidelity: attachment session %d: simulated server wrote %x, real server wrote %x", i, want, got)
		}
		compared++
	}
	fmt.Printf("FIDELITY conversations=%d frames_written_by_servers=%d identical\n", compared, frames)
}

type nopFileEventer struct{}

func (nopFileEventer) OnEvent(*realatt.PackageProgress) {}

func waitListen(t *testing.T, addr string) {
	for i := 0; i < 200; i++ {
		c, err := net.DialTimeout("tcp", addr, 100*time.Millisecond)
		if err == nil {
			c.Close()
			return
		}
		time.Sleep(10 * time.Millisecond)
	}
	t.Fatalf("real server did not start listening on %s", addr)
}

// realConversation plays an actor's send operations over real TCP, pacing them so that each arrives as its own
// read, and returns what the server wrote (waiting until wantLen bytes arrived or nothing came for a while).
func realConversation(t *testing.T, addr string, a *Actor, wantLen int) []byte {
	c, err := net.Dial("tcp", addr)
	if err != nil {
		t.Fatal(err)
	}
	defer c.Close()
	var got []byte
	buf := make([]byte, 65536)
	read := func(d time.Duration) {
		c.SetReadDeadline(time.Now().Add(d))
		for {
			n, err := c.Read(buf)
			got = append(got, buf[:n]...)
			if err != nil {
				return
			}
		}
	}
	for _, op := range a.Ops {
		if op.K != "send" {
			continue
		}
		if _, err := c.Write(op.Data); err != nil {
			t.Fatal(err)
		}
		read(15 * time.Millisecond)
	}
	for i := 0; i < 40 && len(got) < wantLen; i++ {
		read(25 * time.Millisecond)
	}
	return got
}
