package harness

import (
	"fmt"
	"strings"
)

// genC03: per-connection handler objects (README pattern) meet bodies of every type repeatedly, from three
// pools, under random segmentation, so that each body is parsed by a receiver with history and from buffers
// with other data behind the slice.
func genC03(seed uint64, tier string, idx int) *Plan {
	p, g := newPlan("C03", seed, tier)
	p.Svc.Handlers = "parse"
	p.Svc.Dialect = 1 + g.r.intn(5)
	p.Svc.Ext = g.r.chance(35)
	ext66 := g.r.chance(25) // 0x66 items with list entries only in part of the runs (see DESIGN, known finding)
	used := map[string]bool{}
	nconn := 1 + g.r.intn(2)
	for c := 0; c < nconn; c++ {
		v19 := g.r.chance(50)
		ci := g.addConn("service", v19, g.distinctPhone(v19, used))
		phone := p.Conns[ci].Phone
		// a few types dominate each connection so that receivers are reused
		var ids []uint16
		for k := 1 + g.r.intn(3); k > 0; k-- {
			ids = append(ids, handledIDs[g.r.intn(len(handledIDs))])
		}
		if p.Svc.Ext {
			ids = append(ids, 0x0200, 0x0200)
		}
		n := 4 + g.r.intn(30)
		var frames []SentFrame
		var pool [][]byte
		// some terminals change their header version in mid-connection: the same per-connection receivers then see
		// bodies of both layouts
		mixedVer := g.r.chance(20)
		oPhone := append(make([]byte, 4), phone...)
		if v19 {
			oPhone = append([]byte(nil), phone[len(phone)-6:]...)
		}
		for i := 0; i < n; i++ {
			id := ids[g.r.intn(len(ids))]
			if mixedVer && i > 0 && g.r.chance(35) {
				body := g.wellFormedBody(id, !v19, oPhone)
				if g.r.chance(30) {
					body = g.advBody(id, !v19, oPhone)
				}
				if len(body) > 1023 {
					body = body[:1023]
				}
				frames = append(frames, g.mkFrameAs(id, g.randSerial(), body, !v19, oPhone))
				continue
			}
			var body []byte
			switch g.r.intn(4) {
			case 0, 1:
				body = g.wellFormedBody(id, v19, phone)
			case 2:
				body = g.advBody(id, v19, phone)
			default:
				if len(pool) > 0 {
					body = pool[g.r.intn(len(pool))] // the same body again later
				} else {
					body = g.wellFormedBody(id, v19, phone)
				}
			}
			if p.Svc.Ext && id == 0x0200 && g.r.chance(70) {
				body = g.withExtItems(body, ext66)
			}
			if len(body) > 1023 {
				body = body[:1023]
			}
			pool = append(pool, body)
			frames = append(frames, g.mkFrame(ci, id, g.randSerial(), body))
		}
		g.connActor(ci, frames, g.segStyle(), 0)
	}
	p.Sched = g.sched()
	p.MaxStep = 100000
	return p
}

func checkC03(r *Result) []Violation {
	// a panic inside a decoder or a String method (the goroutine wrapper turns it into a CRASH event)
	for _, c := range r.Crashes {
		inDecoder := false
		for _, f := range c.Frames {
			if strings.Contains(f, "/protocol/") {
				inDecoder = true
			}
		}
		if inDecoder {
			sig := crashSig(c.Frames, c.Value)
			return []Violation{{Prop: "C03", Rule: "C03.panic", Sig: "C03.panic:" + sig,
				Msg: fmt.Sprintf("decoder panicked: %s; stack: %s", c.Value, strings.Join(c.Frames, " < ")), Step: c.Step}}
		}
	}
	if len(r.parseViol) > 0 {
		return r.parseViol[:1]
	}
	return nil
}

func init() {
	register(&propDef{ID: "C03", Gen: genC03, Check: checkC03,
		Foreign: func(r *Result) string {
			for _, c := range r.Crashes {
				in := false
				for _, f := range c.Frames {
					if strings.Contains(f, "/protocol/") {
						in = true
					}
				}
				if !in {
					return "crash(C10/C13)"
				}
			}
			return ""
		},
		Interesting: func(r *Result) bool { return r.Rare["c03.parse_calls"] >= 4 }})
}

// withExtItems appends one to three vendor extension items (0x64, 0x65, 0x66, 0x67, 0x70) to a location body:
// mostly of the length the parser accepts, now and then one off, and for 0x66 with and without list entries.
func (g *genCtx) withExtItems(body []byte, lists bool) []byte {
	body = append([]byte(nil), body...)
	if len(body) > 28 && g.r.chance(50) {
		body = body[:28] // extension items directly after the fixed part
	}
	for k := 1 + g.r.intn(3); k > 0; k-- {
		id := []byte{0x64, 0x65, 0x66, 0x67, 0x70}[g.r.intn(5)]
		n := map[byte]int{0x64: 47, 0x65: 47, 0x66: 40, 0x67: 41, 0x70: 47}[id]
		var content []byte
		if id == 0x66 {
			cnt := 0
			if lists {
				cnt = g.r.intn(4)
			}
			switch g.r.intn(6) {
			case 0:
				n = 40 // ends right before the count byte
			case 1:
				n = 41 + 9*cnt // the standard's layout
			default:
				n = 40 + 9*cnt // the layout the repository's parser accepts
			}
			content = g.r.bytes(n)
			if n > 40 {
				content[40] = byte(cnt)
			}
		} else {
			if g.r.chance(12) {
				n += g.r.pick(-1, 1)
			}
			content = g.r.bytes(n)
		}
		// status words are often zero or a single bit, so that a flag left over from an earlier parse shows
		if len(content) >= 40 && g.r.chance(50) {
			for i := 20; i < 32 && i < len(content); i++ {
				content[i] = 0
			}
		}
		if len(body)+2+len(content) > 1023 {
			break
		}
		body = append(append(body, id, byte(len(content))), content...)
	}
	return body
}
