package harness

import (
	"fmt"
	"sort"
	"time"

	"verifsim/ref"
)

const (
	reissueAfter = 5 * time.Second
	expireAfter  = 60 * time.Second
)

// genC14: transfers with a missing set, idle gaps around 5 s and 60 s, heartbeats as "next inbound data",
// repeated rounds, partial resupply.
func genC14(seed uint64, tier string, idx int) *Plan {
	p, g := newPlan("C14", seed, tier)
	v19 := g.r.chance(50)
	ci := g.addConn("service", v19, g.phone(v19))
	maxN := 24
	if (tier == "thorough" && g.r.chance(15)) || g.r.chance(2) {
		maxN = 255 // long transfers: re-requests that list more than 127 numbers
	}
	a := &Actor{Name: "c0", Conn: ci, Ops: []Op{{K: "dial"}}}
	var frames []SentFrame
	send := func(f SentFrame) {
		frames = append(frames, f)
		a.Ops = append(a.Ops, Op{K: "send", Data: f.Raw, End: true, Frame: len(frames)})
	}
	sleep := func(d time.Duration) {
		a.Ops = append(a.Ops, Op{K: "quiet"}, Op{K: "sleep", D: int64(d)})
	}
	hb := func() {
		f := g.mkFrame(ci, 0x0002, g.randSerial(), nil)
		if g.r.chance(15) {
			// the frame arrives in two TCP segments, the second a little later: the first one is "inbound data" too
			frames = append(frames, f)
			k := 1 + g.r.intn(len(f.Raw)-1)
			a.Ops = append(a.Ops, Op{K: "send", Data: f.Raw[:k], Frame: len(frames) - 1}, Op{K: "quiet"},
				Op{K: "sleep", D: int64(time.Duration(200+g.r.intn(1500)) * time.Millisecond)},
				Op{K: "send", Data: f.Raw[k:], End: true, Frame: len(frames)}, Op{K: "quiet"})
			g.p.Faults = append(g.p.Faults, "seg.split_with_pause")
			return
		}
		send(f)
		a.Ops = append(a.Ops, Op{K: "quiet"})
	}
	delta := func() time.Duration {
		return time.Duration(1+g.r.intn(400)) * time.Millisecond
	}
	gap := func() time.Duration {
		switch g.r.intn(6) {
		case 0, 1:
			return reissueAfter - delta() // just below: no re-request yet
		case 2, 3:
			return reissueAfter + delta()
		case 4:
			return time.Duration(g.r.intn(4000)) * time.Millisecond
		default:
			return reissueAfter + time.Duration(g.r.intn(20000))*time.Millisecond
		}
	}
	nx := 1 + g.r.intn(2)
	if g.r.chance(25) {
		nx = 3 + g.r.intn(5) // many message IDs pending at once: their re-requests fall due together
	}
	ids := []uint16{0x0200, 0x0704, 0x0801, 0x0705, 0x0800, 0x1005, 0x0900, 0x0102}
	type open struct {
		xi      int
		missing []int
		pk      map[int]SentFrame
	}
	var opens []*open
	for x := 0; x < nx; x++ {
		id := ids[x]
		total := 2 + g.r.intn(maxN-1)
		missPct := 35
		if maxN == 255 && g.r.chance(50) {
			total, missPct = 180+g.r.intn(76), 80 // most of a long transfer missing: a re-request with 128+ numbers
		}
		fr, tr := g.transferFrames(ci, id, total, 0, false)
		// choose a non-empty missing set among 2..N
		var missing []int
		for no := 2; no <= total; no++ {
			if g.r.chance(missPct) {
				missing = append(missing, no)
			}
		}
		if len(missing) == 0 {
			missing = []int{2 + g.r.intn(total-1)}
		}
		tr.Missing = missing
		p.Expect.Xfers = append(p.Expect.Xfers, tr)
		xi := len(p.Expect.Xfers)
		o := &open{xi: xi, missing: missing, pk: map[int]SentFrame{}}
		miss := map[int]bool{}
		for _, m := range missing {
			miss[m] = true
		}
		for k := range fr {
			fr[k].Xfer = xi
			o.pk[int(fr[k].No)] = fr[k]
			if !miss[int(fr[k].No)] {
				send(fr[k])
			}
		}
		opens = append(opens, o)
		g.p.Faults = append(g.p.Faults, "pkt.loss")
		if g.r.chance(30) {
			sleep(time.Duration(g.r.intn(3000)) * time.Millisecond)
		}
	}
	rounds := 1 + g.r.intn(4)
	for rd := 0; rd < rounds; rd++ {
		d := gap()
		if g.r.chance(8) {
			d = expireAfter - delta()
			if g.r.chance(50) {
				d = expireAfter + delta()
			}
		}
		sleep(d)
		// usually a heartbeat is the first thing the server reads after the silence; sometimes it is a missing
		// packet of an open transfer itself (sent unasked)
		unasked := len(opens) > 0 && g.r.chance(25)
		if !unasked {
			hb()
			if g.r.chance(30) {
				hb()
			}
		}
		// partial or full resupply of one open transfer
		if len(opens) > 0 && (unasked || g.r.chance(60)) {
			o := opens[g.r.intn(len(opens))]
			if len(o.missing) > 0 {
				n := 1 + g.r.intn(len(o.missing))
				for _, no := range o.missing[:n] {
					send(o.pk[no])
					if g.r.chance(15) {
						send(o.pk[no]) // the terminal answers a re-request twice
						g.p.Faults = append(g.p.Faults, "pkt.dup")
					}
				}
				o.missing = o.missing[n:]
				a.Ops = append(a.Ops, Op{K: "quiet"})
			}
		}
	}
	if len(opens) > 0 && g.r.chance(20) {
		// the terminal abandons an open transfer and starts the same message again (a new packet 1 of that id): the new
		// transfer has its own 60 s; inbound data more than 60 s after the first start and less than 60 s after the
		// second must find it alive (re-requested, and completed by the resupply)
		k := g.r.intn(len(opens))
		old := opens[k]
		id := p.Expect.Xfers[old.xi-1].ID
		sleep(time.Duration(25000+g.r.intn(30000)) * time.Millisecond)
		total := 2 + g.r.intn(10)
		fr, tr := g.transferFrames(ci, id, total, 0, false)
		missing := []int{2 + g.r.intn(total-1)}
		tr.Missing = missing
		p.Expect.Xfers = append(p.Expect.Xfers, tr)
		xi := len(p.Expect.Xfers)
		o := &open{xi: xi, missing: missing, pk: map[int]SentFrame{}}
		for i := range fr {
			fr[i].Xfer = xi
			o.pk[int(fr[i].No)] = fr[i]
			if int(fr[i].No) != missing[0] {
				send(fr[i])
			}
		}
		opens[k] = o
		sleep(time.Duration(15000+g.r.intn(25000)) * time.Millisecond)
		hb()
		g.p.Faults = append(g.p.Faults, "input.transfer_restarted", "clock.cross_60s")
	}
	// final: long wait, heartbeat, resupply everything that is still missing (an expired transfer must not complete)
	if g.r.chance(50) {
		sleep(expireAfter + delta())
		hb()
		g.p.Faults = append(g.p.Faults, "clock.cross_60s")
	} else {
		sleep(gap())
		hb()
	}
	for _, o := range opens {
		for _, no := range o.missing {
			send(o.pk[no])
		}
	}
	a.Ops = append(a.Ops, Op{K: "quiet"})
	p.Expect.Frames[ci] = frames
	p.Actors = append(p.Actors, a)
	p.Sched = g.sched()
	p.MaxStep = 200000
	return p
}

// c14 model: replays the deliveries with their simulated times against the reference reassembly table.
type refXfer struct {
	id      uint16
	total   int
	got     map[uint16]bool
	created int64
	updated int64
	serial1 uint16
	lastReq int64 // time of the last re-request (0 = none)
	expired bool
	xi      int
}

func checkC14(r *Result) []Violation {
	var vs []Violation
	bad := func(rule, msg string, step int) {
		vs = append(vs, Violation{Prop: "C14", Rule: "C14." + rule, Sig: "C14." + rule, Msg: msg, Step: step})
	}
	for ci := range r.Plan.Conns {
		if ci >= len(r.Plan.Expect.Frames) {
			continue
		}
		frames := r.Plan.Expect.Frames[ci]
		// 0x8003 frames the server wrote, in order
		type req struct {
			ev Ev
			b  ref.P8003
		}
		var reqs []req
		for _, e := range r.Hist {
			if e.C == ci && e.K == KSrvWrite && e.Err == "" {
				if f, err := ref.Decode(e.Raw); err == nil && f.ID == 0x8003 {
					b, perr := ref.ParseP8003(f.Body)
					if perr != nil {
						bad("malformed_8003", fmt.Sprintf("conn %d: 0x8003 body does not parse: %v (%x)", ci, perr, f.Body), e.Step)
						return vs
					}
					reqs = append(reqs, req{e, b})
				}
			}
		}
		open := map[uint16]*refXfer{} // by message ID
		delivered := 0
		completeOK := map[int]bool{}  // transfer index -> may complete
		completeStep := map[int]int{} // transfer index -> step of the delivery that completed it
		// The model walks the deliveries (a chunk is one frame or, now and then, a part of one; read by the server at
		// the simulated instant it was delivered) and produces, per inbound frame, the group of re-requests that
		// frame makes due. The reader hands them to the writer through a queue, so they appear on the socket in
		// this order, possibly after later frames have been read; inside one group the order is not prescribed.
		type want struct {
			x       *refXfer
			missing []uint16
			at      int64
			step    int
		}
		var groups [][]want
		ambiguous := false
		for _, e := range r.Hist {
			if ambiguous {
				break
			}
			if e.K != KDeliver || e.C != ci {
				continue
			}
			// every delivery is inbound data, also one that completes no frame (the first segment of a split frame)
			if e.Ref < delivered {
				e.Ref = delivered
			}
			now := e.T
			for k := delivered; k < e.Ref && k < len(frames); k++ {
				f := frames[k]
				if f.Xfer <= 0 {
					continue
				}
				x := open[f.ID]
				if f.No == 1 {
					x = &refXfer{id: f.ID, total: int(f.Total), got: map[uint16]bool{}, created: now, updated: now, serial1: f.Serial, xi: f.Xfer}
					open[f.ID] = x
				}
				if x == nil || x.xi != f.Xfer {
					continue // packet of a transfer that is gone: ignored
				}
				x.got[f.No] = true
				x.updated = now
				if len(x.got) == x.total {
					completeOK[x.xi] = true
					completeStep[x.xi] = e.Step
					delete(open, f.ID)
				}
			}
			delivered = e.Ref
			var group []want
			var ids []int
			for id := range open {
				ids = append(ids, int(id))
			}
			sort.Ints(ids)
			for _, id := range ids {
				x := open[uint16(id)]
				if now-x.created > int64(expireAfter) {
					x.expired = true
					delete(open, x.id)
					continue
				}
				if now-x.created == int64(expireAfter) || now-x.updated == int64(reissueAfter) {
					// inbound data at exactly 5 s / 60 s: the property does not say which way the instant
					// falls, so nothing from here on can be demanded of this connection in this run
					ambiguous = true
					break
				}
				if now-x.updated > int64(reissueAfter) {
					var missing []uint16
					for no := 1; no <= x.total; no++ {
						if !x.got[uint16(no)] {
							missing = append(missing, uint16(no))
						}
					}
					group = append(group, want{x, missing, now, e.Step})
					x.updated = now // at most once per 5 s
				}
			}
			if len(group) > 0 {
				groups = append(groups, group)
			}
		}
		if ambiguous {
			continue
		}
		ri := 0
		for _, group := range groups {
			if ri+len(group) > len(reqs) {
				if r.Outcome == 0 {
					w := group[0]
					bad("missing_8003", fmt.Sprintf("conn %d: transfer id=%#04x had been idle for more than 5 s when inbound data arrived at t=%s (step %d); %d re-request(s) fell due with that data, the server wrote only %d more", ci, w.x.id, time.Duration(w.at), w.step, len(group), len(reqs)-ri), w.step)
					return vs
				}
				break
			}
			got := reqs[ri : ri+len(group)]
			ri += len(group)
			used := make([]bool, len(got))
			// first pair up the exact matches (two transfers may by chance carry the same first serial)
			var rest []want
			for _, w := range group {
				exact := false
				for gi, q := range got {
					if !used[gi] && q.b.OrigSerial == w.x.serial1 && fmt.Sprint(q.b.Nos) == fmt.Sprint(w.missing) && q.ev.Step > w.step {
						used[gi] = true
						exact = true
						break
					}
				}
				if !exact {
					rest = append(rest, w)
				}
			}
			for _, w := range rest {
				found := false
				for gi, q := range got {
					if used[gi] || q.b.OrigSerial != w.x.serial1 {
						continue
					}
					used[gi] = true
					found = true
					if q.ev.Step <= w.step {
						bad("unexpected_8003", fmt.Sprintf("conn %d: re-request for id=%#04x written at step %d, before the inbound data that makes it due (step %d)", ci, w.x.id, q.ev.Step, w.step), q.ev.Step)
						return vs
					}
					if fmt.Sprint(q.b.Nos) != fmt.Sprint(w.missing) {
						bad("wrong_missing_list", fmt.Sprintf("conn %d: re-request for id=%#04x names %v, missing are %v", ci, w.x.id, q.b.Nos, w.missing), q.ev.Step)
						return vs
					}
					break
				}
				if !found {
					var ss []uint16
					for _, q := range got {
						ss = append(ss, q.b.OrigSerial)
					}
					bad("unexpected_8003", fmt.Sprintf("conn %d: a re-request naming the first packet's serial %d of id=%#04x was due at t=%s; the server wrote re-requests with original serials %v (numbers %v) instead", ci, w.x.serial1, w.x.id, time.Duration(w.at), ss, got[0].b.Nos), got[0].ev.Step)
					return vs
				}
			}
		}
		if ri < len(reqs) {
			q := reqs[ri]
			bad("unexpected_8003", fmt.Sprintf("conn %d: re-request (original serial %d, numbers %v) written at t=%s although no transfer was due for one (idle <= 5 s, or already re-requested within 5 s, or expired)", ci, q.b.OrigSerial, q.b.Nos, time.Duration(q.ev.T)), q.ev.Step)
			return vs
		}
		// completion: exactly the transfers the model let complete are delivered; expired ones never
		// a completed message is never reported before the delivery that supplied its last missing packet
		{
			idx := map[uint16]int{}
			for xi, tr := range r.Plan.Expect.Xfers {
				if tr.Conn != ci || !completeOK[xi+1] {
					continue
				}
				k := idx[tr.ID]
				idx[tr.ID]++
				n := 0
				for _, e := range r.Hist {
					if e.C == ci && (e.K == KRead || e.K == KNotSup) && e.Who == "eventer" && e.Complete && e.ID == tr.ID {
						if n == k && e.Step <= completeStep[xi+1] {
							bad("completed_before_resupply", fmt.Sprintf("conn %d: id=%#04x reported complete at step %d, its last missing packet was only delivered at step %d", ci, tr.ID, e.Step, completeStep[xi+1]), e.Step)
							return vs
						}
						n++
					}
				}
			}
		}
		gotComplete := map[uint16]int{}
		for _, e := range r.Hist {
			// (a completed message of an ID without handler is reported through OnNotSupportedEvent)
			if e.C == ci && (e.K == KRead || e.K == KNotSup) && e.Who == "eventer" && e.Complete {
				gotComplete[e.ID]++
			}
		}
		wantComplete := map[uint16]int{}
		for xi, tr := range r.Plan.Expect.Xfers {
			if tr.Conn == ci && completeOK[xi+1] {
				wantComplete[tr.ID]++
			}
		}
		for _, tr := range r.Plan.Expect.Xfers {
			if tr.Conn != ci {
				continue
			}
			if gotComplete[tr.ID] > wantComplete[tr.ID] {
				bad("expired_transfer_delivered", fmt.Sprintf("conn %d: id=%#04x delivered complete %d times, the model allows %d (a transfer older than 60 s is discarded)", ci, tr.ID, gotComplete[tr.ID], wantComplete[tr.ID]), 0)
				return vs
			}
			if gotComplete[tr.ID] < wantComplete[tr.ID] {
				bad("resupplied_transfer_not_completed", fmt.Sprintf("conn %d: id=%#04x delivered complete %d times, %d transfers were completely supplied in time", ci, tr.ID, gotComplete[tr.ID], wantComplete[tr.ID]), 0)
				return vs
			}
		}
	}
	if len(vs) == 0 {
		// the 0x8003 frames take part in the platform serial numbering
		for _, v := range checkReplyModel(r, replyOpts{prop: "C14", numbering: true}) {
			if v.Rule == "C14.platform_serial" || v.Rule == "C14.addressing" || v.Rule == "C14.undecodable_frame" {
				vs = append(vs, v)
			}
		}
	}
	return vs
}

func init() {
	register(&propDef{ID: "C14", Gen: genC14, Check: withCrashRule("C14", checkC14),
		Interesting: func(r *Result) bool {
			for _, e := range r.Hist {
				if e.K == KSrvWrite && e.Err == "" {
					if f, err := ref.Decode(e.Raw); err == nil && f.ID == 0x8003 {
						return true
					}
				}
			}
			return false
		}})
}
