package harness

import (
	"bytes"
	"fmt"
	"time"
)

// mergeStreams interleaves several frame sequences, preserving each one's internal order.
func (g *genCtx) mergeStreams(streams ...[]SentFrame) []SentFrame {
	var out []SentFrame
	idx := make([]int, len(streams))
	for {
		var live []int
		for i, s := range streams {
			if idx[i] < len(s) {
				live = append(live, i)
			}
		}
		if len(live) == 0 {
			return out
		}
		k := live[g.r.intn(len(live))]
		// sticky: sometimes take a run from the same stream
		n := 1
		if g.r.chance(40) {
			n += g.r.intn(3)
		}
		for ; n > 0 && idx[k] < len(streams[k]); n-- {
			out = append(out, streams[k][idx[k]])
			idx[k]++
		}
	}
}

var xferIDs = []uint16{0x0200, 0x0704, 0x0801, 0x0800, 0x1005, 0x0705, 0x0900, 0x0102, 0x0002}

func genC05(seed uint64, tier string, idx int) *Plan {
	p, g := newPlan("C05", seed, tier)
	used := map[string]bool{}
	nconn := 1 + g.r.intn(2)
	maxN := 12
	if tier == "thorough" && g.r.chance(10) {
		maxN = 64
	}
	for c := 0; c < nconn; c++ {
		v19 := g.r.chance(50)
		ci := g.addConn("service", v19, g.distinctPhone(v19, used))
		var streams [][]SentFrame
		nx := 1 + g.r.intn(2)
		ids := append([]uint16(nil), xferIDs...)
		for x := 0; x < nx; x++ {
			k := g.r.intn(len(ids))
			id := ids[k]
			ids = append(ids[:k], ids[k+1:]...)
			var seq []SentFrame
			rounds := 1 + g.r.intn(2) // sequential transfers of the same ID
			for rd := 0; rd < rounds; rd++ {
				total := 1 + g.r.intn(maxN)
				fr, tr := g.transferFrames(ci, id, total, 20, g.r.chance(70))
				if rd < rounds-1 && total >= 2 && g.r.chance(25) {
					// an abandoned transfer: one packet never arrives; the next transfer of this ID starts afresh
					k := 1 + g.r.intn(len(fr)-1)
					drop := fr[k].No
					var kept []SentFrame
					for _, f := range fr {
						if f.No != drop {
							kept = append(kept, f)
						}
					}
					fr = kept
					g.p.Faults = append(g.p.Faults, "pkt.loss")
				}
				p.Expect.Xfers = append(p.Expect.Xfers, tr)
				xi := len(p.Expect.Xfers)
				var withBad []SentFrame
				for k := range fr {
					fr[k].Xfer = xi
					withBad = append(withBad, fr[k])
					// impossible package numbers while the transfer is open
					if k < len(fr)-1 && g.r.chance(10) {
						no := uint16(0)
						if g.r.chance(50) {
							no = uint16(total + 1 + g.r.intn(3))
						}
						if g.r.chance(10) {
							no = 65535
						}
						badTotal := uint16(total)
						if no > uint16(total) && no != 65535 && g.r.chance(40) {
							badTotal = no + uint16(g.r.intn(3)) // a straggler of a longer transfer: its own header claims a larger total
						}
						bad := g.mkSubFrame(ci, id, g.randSerial(), badTotal, no, g.body(1+g.r.intn(20), 2))
						bad.Xfer = -xi
						withBad = append(withBad, bad)
						g.p.Faults = append(g.p.Faults, "pkt.bad_number")
					}
				}
				seq = append(seq, withBad...)
			}
			streams = append(streams, seq)
		}
		// ordinary traffic in between
		var plain []SentFrame
		for i := g.r.intn(6); i > 0; i-- {
			id := g.randID()
			plain = append(plain, g.mkFrame(ci, id, g.randSerial(), g.wellFormedBody(id, v19, p.Conns[ci].Phone)))
		}
		streams = append(streams, plain)
		frames := g.mergeStreams(streams...)
		style := g.segStyle()
		if g.r.chance(35) {
			style = "frame" // each packet in its own read: bodies alias the reused read buffer
		}
		if g.r.chance(8) {
			// A transfer abandoned for good (one packet never arrives), more than 60 s of silence, then life goes on:
			// an ordinary message, a re-sent packet of the abandoned transfer ("ignored without disturbing ... the
			// server") and a fresh transfer that must complete. What the server does with the abandoned transfer is
			// C14's business; here it may only never be delivered.
			total := 3 + g.r.intn(5)
			fr, tr := g.transferFrames(ci, 0x0805, total, 20, g.r.chance(50))
			miss := fr[1+g.r.intn(len(fr)-1)].No
			var kept []SentFrame
			for _, f := range fr {
				if f.No != miss {
					kept = append(kept, f)
				}
			}
			p.Expect.Xfers = append(p.Expect.Xfers, tr)
			xi := len(p.Expect.Xfers)
			for k := range kept {
				kept[k].Xfer = xi
			}
			gapAfter := len(frames) + len(kept)
			frames = append(frames, kept...)
			pid := g.randID()
			frames = append(frames, g.mkFrame(ci, pid, g.randSerial(), g.wellFormedBody(pid, v19, p.Conns[ci].Phone)))
			late := kept[len(kept)-1]
			if late.No == 1 && len(kept) > 1 {
				late = kept[len(kept)-2]
			}
			if late.No != 1 {
				frames = append(frames, late)
			}
			total2 := 1 + g.r.intn(4)
			fr2, tr2 := g.transferFrames(ci, 0x0104, total2, 20, true)
			p.Expect.Xfers = append(p.Expect.Xfers, tr2)
			for k := range fr2 {
				fr2[k].Xfer = len(p.Expect.Xfers)
			}
			frames = append(frames, fr2...)
			a := g.connActor(ci, frames, "frame", 20)
			var ops []Op
			for _, op := range a.Ops {
				ops = append(ops, op)
				if op.K == "send" && op.Frame == gapAfter {
					ops = append(ops, Op{K: "sleep", D: int64(time.Duration(61000+g.r.intn(30000)) * time.Millisecond)})
				}
			}
			a.Ops = ops
			g.p.Faults = append(g.p.Faults, "clock.abandoned_transfer_expires", "pkt.loss")
			continue
		}
		a := g.connActor(ci, frames, style, 20)
		if g.r.chance(20) {
			// idle gaps between reads, in total well below the 60 s after which a transfer may be discarded
			budget := int64(50 * time.Second)
			var ops []Op
			for _, op := range a.Ops {
				if op.K == "send" && op.End && budget > 0 && g.r.chance(25) {
					d := int64(time.Duration(200+g.r.intn(9000)) * time.Millisecond)
					if d > budget {
						d = budget
					}
					budget -= d
					ops = append(ops, Op{K: "sleep", D: d})
				}
				ops = append(ops, op)
			}
			a.Ops = ops
			g.p.Faults = append(g.p.Faults, "clock.idle_gaps")
		}
	}
	p.Sched = g.sched()
	p.MaxStep = 100000
	return p
}

// xferState replays the environment's deliveries and reports, per transfer, the step at which its last
// missing packet was delivered (0 if never).
func xferCompleteSteps(r *Result, ci int) map[int]int {
	frames := r.Plan.Expect.Frames[ci]
	got := map[int]map[uint16]bool{}
	done := map[int]int{}
	delivered := 0
	for _, e := range r.Hist {
		if e.K != KDeliver || e.C != ci || e.Ref <= delivered {
			continue
		}
		for k := delivered; k < e.Ref && k < len(frames); k++ {
			f := frames[k]
			if f.Xfer <= 0 {
				continue
			}
			if got[f.Xfer] == nil {
				got[f.Xfer] = map[uint16]bool{}
			}
			got[f.Xfer][f.No] = true
			if len(got[f.Xfer]) == int(f.Total) && done[f.Xfer] == 0 {
				done[f.Xfer] = e.Step
			}
		}
		delivered = e.Ref
	}
	return done
}

func checkC05(r *Result) []Violation {
	var vs []Violation
	bad := func(rule, msg string, step int) {
		vs = append(vs, Violation{Prop: "C05", Rule: "C05." + rule, Sig: "C05." + rule, Msg: msg, Step: step})
	}
	for _, c := range r.Crashes {
		for _, f := range c.Frames {
			if bytes.Contains([]byte(f), []byte("completePack")) {
				bad("impossible_number_crash", fmt.Sprintf("a packet with an impossible package number crashed the server: %s in %s", c.Value, f), c.Step)
				return vs
			}
		}
	}
	for ci := range r.Plan.Conns {
		if ci >= len(r.Plan.Expect.Frames) {
			continue
		}
		done := xferCompleteSteps(r, ci)
		// completed messages reported by the eventer
		type rep struct{ ev Ev }
		byID := map[uint16][]Ev{}
		for _, e := range r.Hist {
			// a completed message of an ID without handler is reported through OnNotSupportedEvent
			if e.C == ci && (e.K == KRead || e.K == KNotSup) && e.Who == "eventer" && e.Complete {
				byID[e.ID] = append(byID[e.ID], e)
			}
			if e.C == ci && e.K == KRead && e.Who == "eventer" && !e.Complete && e.SubSum > 0 {
				bad("fragment_delivered", fmt.Sprintf("conn %d: a single packet (%d/%d of id=%#04x) reached the handlers although sub-packages are filtered until complete", ci, e.SubNo, e.SubSum, e.ID), e.Step)
				return vs
			}
		}
		// transfers of one ID are sequential: match them in order
		next := map[uint16]int{}
		for xi, tr := range r.Plan.Expect.Xfers {
			if tr.Conn != ci {
				continue
			}
			step := done[xi+1]
			evs := byID[tr.ID]
			if step == 0 {
				continue // not (yet) completely delivered: must not be reported, checked by the count below
			}
			k := next[tr.ID]
			if k >= len(evs) {
				// must have been reported by the next quiescent point
				for _, e := range r.Hist {
					if e.C == ci && e.Step > step && (e.K == KFin || e.K == KRst) {
						break
					}
					if e.C == ci && e.K == KQuiet && e.Step > step {
						bad("not_delivered", fmt.Sprintf("conn %d: all %d packets of id=%#04x had arrived by step %d but no complete message was delivered by the quiescent point at step %d", ci, tr.Total, tr.ID, step, e.Step), e.Step)
						return vs
					}
				}
				continue
			}
			next[tr.ID] = k + 1
			e := evs[k]
			var want []byte
			for _, b := range tr.Bodies {
				want = append(want, b...)
			}
			if e.Step <= step {
				bad("delivered_incomplete", fmt.Sprintf("conn %d: id=%#04x reported complete at step %d before its last missing packet arrived (step %d)", ci, tr.ID, e.Step, step), e.Step)
				return vs
			}
			if !bytes.Equal(e.Body, want) {
				bad("wrong_body", fmt.Sprintf("conn %d: reassembled body of id=%#04x (%d packets) is %d bytes and differs from the concatenation of the sent packet bodies (%d bytes)", ci, tr.ID, tr.Total, len(e.Body), len(want)), e.Step)
				return vs
			}
		}
		for id, evs := range byID {
			if len(evs) > next[id] {
				bad("extra_delivery", fmt.Sprintf("conn %d: id=%#04x delivered as complete %d times, %d transfers were completely sent", ci, id, len(evs), next[id]), evs[len(evs)-1].Step)
				return vs
			}
		}
	}
	if len(vs) == 0 {
		vs = append(vs, checkReplyModel(r, replyOpts{prop: "C05", wantAll: true})...)
	}
	return vs
}

func init() {
	register(&propDef{ID: "C05", Gen: genC05, Check: withCrashRule("C05", checkC05),
		Interesting: func(r *Result) bool {
			for _, e := range r.Hist {
				if (e.K == KRead || e.K == KNotSup) && e.Complete && e.SubSum > 1 {
					return true
				}
			}
			return false
		}})
}

// foreignCrashExcept: crashes are C10/C13's business unless they come from the named function (then the
// property's own "does not disturb the server" clause is at stake).
func foreignCrashExcept(fn string) func(r *Result) string {
	return func(r *Result) string {
		for _, c := range r.Crashes {
			own := false
			for _, f := range c.Frames {
				if bytes.Contains([]byte(f), []byte(fn)) {
					own = true
				}
			}
			if !own {
				return "crash(C10/C13)"
			}
		}
		return ""
	}
}
