package harness

import (
	"fmt"
	"strings"
	"testing"
	"time"

	"verifsim/ref"
)

// advBody builds adversarial bodies for a terminal message ID: structurally plausible, with count/length
// fields that disagree with the bytes that follow.
func (g *genCtx) advBody(id uint16, v19 bool, phone []byte) []byte {
	r := g.r
	good := g.wellFormedBody(id, v19, phone)
	switch r.intn(8) {
	case 0:
		return r.bytes(r.intn(40))
	case 1:
		if len(good) > 0 {
			return good[:r.intn(len(good))] // truncation
		}
		return nil
	case 2:
		return append(good, r.bytes(1+r.intn(30))...) // extension
	case 3:
		b := append([]byte(nil), good...)
		for k := 1 + r.intn(3); k > 0 && len(b) > 0; k-- {
			b[r.intn(len(b))] ^= 1 << uint(r.intn(8))
		}
		return b
	case 4:
		return g.body(r.pick(1, 2, 3, 27, 28, 29, 30, 31, 35, 36, 37, 62, 63, 1023), 2)
	}
	// crafted inconsistencies
	switch id {
	case 0x0200:
		loc := good[:28]
		switch r.intn(5) {
		case 0:
			return append(append([]byte(nil), loc...), 0x31, 0x00) // item with length 0
		case 1:
			return append(append([]byte(nil), loc...), 0x01, 0x04, 0, 0) // item longer than the body
		case 2:
			return append(append([]byte(nil), loc...), byte(r.next()), byte(r.next())) // random id, random length
		case 3:
			return append(append([]byte(nil), loc...), 0x30) // lone id
		default:
			b := append([]byte(nil), loc...)
			for k := 0; k < 6; k++ {
				b = append(b, byte(r.pick(0x01, 0x02, 0x11, 0x12, 0x13, 0x25, 0x2a, 0x2b, 0x30, 0x31, 0xe1, 0x64, 0x65, 0x66, 0x67, 0x70)), byte(r.intn(8)))
				b = append(b, r.bytes(r.intn(8))...)
			}
			return b
		}
	case 0x0704:
		b := []byte{byte(r.intn(3)), byte(r.pick(0, 1, 2, 200, 255)), 0}
		n := r.intn(3)
		for i := 0; i < n; i++ {
			ln := r.pick(0, 1, 27, 28, 29, 30, 60000)
			b = append(b, byte(ln>>8), byte(ln))
			b = append(b, r.bytes(r.pick(0, 10, 28, 30))...)
		}
		for len(b) < 31 && r.chance(70) {
			b = append(b, byte(r.next()))
		}
		return b
	case 0x0102:
		if v19 {
			b := []byte{byte(r.pick(0, 1, 35, 200, 220, 255))}
			return append(b, r.bytes(r.pick(0, 34, 35, 36, 60, 255, 290))...)
		}
	case 0x0100:
		return r.bytes(r.pick(0, 3, 24, 25, 26, 36, 37, 75, 76, 77))
	case 0x0801:
		return r.bytes(r.pick(0, 3, 4, 35, 36, 37))
	case 0x0805:
		return append(r.bytes(3), byte(r.intn(2)), byte(r.pick(0, 1, 2, 255)), 0, 0, 0, 1)
	case 0x1205:
		if r.chance(25) {
			// count whose product with the item size wraps in 32 bits, followed by the items it is congruent to
			m := r.intn(3)
			b := r.bytes(2)
			cnt := uint32(m) + uint32(1+r.intn(3))<<30
			b = append(b, byte(cnt>>24), byte(cnt>>16), byte(cnt>>8), byte(cnt))
			for i := 0; i < m; i++ {
				b = append(b, r.bytes(28)...)
			}
			return b
		}
		b := r.bytes(2)
		b = append(b, 0, 0, byte(r.intn(2)), byte(r.pick(0, 1, 2, 255)))
		return append(b, r.bytes(r.pick(0, 27, 28, 29, 56))...)
	case 0x0104:
		b := r.bytes(2)
		b = append(b, byte(r.pick(0, 1, 2, 255)))
		for k := r.intn(4); k > 0; k-- {
			b = append(b, 0, 0, 0, byte(r.pick(1, 0x13, 0x1a, 0x31, 0x32, 0x84, 0x110&0xff, 0x2a, 0x2b)), byte(r.pick(0, 1, 2, 4, 8, 255)))
			b = append(b, r.bytes(r.intn(6))...)
		}
		return b
	case 0x1210:
		d := g.p.Svc.Dialect
		switch r.intn(3) {
		case 0:
			// attachment count exceeds the items present; the body ends exactly behind the last item. Long names
			// keep the body longer than any coarse count*minimum-item-size estimate.
			var files []UpFile
			for k := 1 + r.intn(3); k > 0; k-- {
				files = append(files, UpFile{Name: HexStr(g.body(1+r.intn(40), 1)), Data: []byte{1}})
			}
			b := attach1210Body(d, "T", "A", files)
			at := len(b)
			for _, f := range files {
				at -= 1 + len(f.Name) + 4
			}
			b[at-1] = byte(len(files) + r.pick(1, 1, 2, 3, 50, 250)) // the count byte sits right before the first item
			return b
		case 1:
			b := attach1210Body(d, "T", "A", []UpFile{{Name: "x", Data: []byte{1}}})
			b[len(b)-6] = 255 // name length fills (and overruns) the body
			return b
		default:
			b := attach1210Body(d, "T", "A", nil)
			return b[:r.intn(len(b)+1)]
		}
	case 0x1211, 0x1212:
		return append([]byte{byte(r.pick(0, 1, 10, 255))}, r.bytes(r.pick(0, 4, 5, 6, 14, 15, 16))...)
	}
	return r.bytes(r.intn(64))
}

// hostileServiceFrames: what an ill-behaved JT808 client may send.
func (g *genCtx) hostileServiceStream(ci int) (stream []byte, note string) {
	c := g.p.Conns[ci]
	r := g.r
	switch r.intn(6) {
	case 0:
		return nil, "silent" // connect, send nothing
	case 1:
		n := 1 + r.intn(300)
		b := r.bytes(n)
		for i := range b {
			if r.chance(8) {
				b[i] = 0x7e
			}
		}
		return b, "random_bytes"
	}
	nf := 1 + r.intn(8)
	for i := 0; i < nf; i++ {
		id := handledIDs[r.intn(len(handledIDs))]
		if r.chance(10) {
			id = uint16(r.next())
		}
		f := ref.Frame{ID: id, Ver19: c.Ver19, VerByte: 1, Phone: c.Phone, Serial: g.randSerial(), Body: g.advBody(id, c.Ver19, c.Phone)}
		if len(f.Body) > 1023 {
			f.Body = f.Body[:1023]
		}
		if r.chance(20) { // sub-package fields with impossible values
			f.Sub = true
			f.Total = uint16(r.pick(0, 1, 2, 3, 65535))
			f.No = uint16(r.pick(0, 1, 2, 4, 65535))
		}
		if r.chance(5) {
			f.Encrypt = byte(r.intn(8))
		}
		raw := f.Encode()
		switch r.intn(10) {
		case 0: // bit flip
			raw[r.intn(len(raw))] ^= 1 << uint(r.intn(8))
		case 1: // truncate
			raw = raw[:r.intn(len(raw))]
		case 2: // extend
			raw = append(raw, r.bytes(1+r.intn(10))...)
		}
		stream = append(stream, raw...)
	}
	return stream, "adversarial_frames"
}

// hostileAttStream: what an ill-behaved attachment client may send.
func (g *genCtx) hostileAttStream(ci int) ([]byte, string) {
	c := g.p.Conns[ci]
	r := g.r
	d := g.p.Att.Dialect
	switch r.intn(6) {
	case 0:
		return nil, "silent"
	case 1:
		return r.bytes(1 + r.intn(200)), "random_bytes"
	}
	var stream []byte
	if r.chance(6) {
		// a formally correct upload that leaves more holes than a completion response can count (one byte) or carry
		holes := r.pick(255, 256, 257, 258, 300, 513)
		size := 2*holes + 1
		enc := func(id uint16, body []byte) {
			f := ref.Frame{ID: id, Ver19: c.Ver19, VerByte: 1, Phone: c.Phone, Serial: g.randSerial(), Body: body}
			stream = append(stream, f.Encode()...)
		}
		enc(0x1210, attach1210Body(d, "T", "A", []UpFile{{Name: "f.bin", Data: make([]byte, size)}}))
		enc(0x1211, body1211("f.bin", 0, size))
		for off := 0; off < size; off += 2 {
			stream = append(stream, chunkUnit(d, "f.bin", off, []byte{byte(off)})...)
		}
		enc(0x1212, body1211("f.bin", 0, size))
		return stream, "upload_with_too_many_holes"
	}
	ctl := func(id uint16, body []byte) {
		f := ref.Frame{ID: id, Ver19: c.Ver19, VerByte: 1, Phone: c.Phone, Serial: g.randSerial(), Body: body}
		if len(f.Body) > 1023 {
			f.Body = f.Body[:1023]
		}
		raw := f.Encode()
		if r.chance(10) {
			raw[r.intn(len(raw))] ^= 1 << uint(r.intn(8))
		}
		stream = append(stream, raw...)
	}
	if r.chance(70) {
		if r.chance(60) {
			ctl(0x1210, attach1210Body(d, "T", "A", []UpFile{{Name: "f.bin", Data: make([]byte, 10)}, {Name: "../up", Data: make([]byte, 3)}}))
		} else {
			ctl(0x1210, g.advBody(0x1210, c.Ver19, c.Phone))
		}
	}
	for k := r.intn(6); k > 0; k-- {
		switch r.intn(5) {
		case 0:
			ctl(uint16(r.pick(0x1211, 0x1212, 0x1210, 0x0002, 0x0200)), g.advBody(uint16(r.pick(0x1211, 0x1212)), c.Ver19, c.Phone))
		case 1:
			ctl(0x1211, body1211("f.bin", 0, 10))
		case 2: // data packet with adversarial offset/length/name
			name := []string{"f.bin", "nope", "../up", ""}[r.intn(4)]
			u := chunkUnit(d, name, r.pick(0, 5, 9, 10, 1<<30, -1), r.bytes(r.pick(0, 1, 5, 10, 11)))
			if r.chance(30) { // length field disagrees with the data that follows
				u[len(u)-len(u)%7-1] ^= 0x40
			}
			if r.chance(20) {
				u = u[:r.intn(len(u))]
			}
			stream = append(stream, u...)
		case 3:
			stream = append(stream, marker...)
			stream = append(stream, r.bytes(r.intn(70))...)
		default:
			ctl(0x1212, body1211("f.bin", 0, 10))
		}
	}
	return stream, "adversarial_upload"
}

func (g *genCtx) hostileActor(ci int, stream []byte, note string) {
	p := g.p
	a := &Actor{Name: p.Conns[ci].Label, Conn: ci, Ops: []Op{{K: "dial", MinStep: g.r.intn(60)}}}
	if len(stream) > 0 {
		// arbitrary cuts; no frame bookkeeping (nothing is expected of a hostile connection)
		for off := 0; off < len(stream); {
			n := 1 + g.r.intn(200)
			if g.r.chance(20) {
				n = 1 + g.r.intn(3)
			}
			if off+n > len(stream) {
				n = len(stream) - off
			}
			a.Ops = append(a.Ops, Op{K: "send", Data: append([]byte(nil), stream[off:off+n]...), End: true})
			off += n
		}
	}
	// lifecycle: close or reset somewhere: before any byte, mid-stream, after everything; or stay
	switch g.r.intn(5) {
	case 0:
		k := 1 + g.r.intn(len(a.Ops))
		kind := "fin"
		if g.r.chance(50) {
			kind = "rst"
		}
		a.Ops = append(a.Ops[:k:k], Op{K: kind})
		if k == 1 {
			p.Faults = append(p.Faults, "peer.close_before_first_byte")
		} else {
			p.Faults = append(p.Faults, "peer.close_mid_stream")
		}
	case 1, 2:
		kind := "fin"
		if g.r.chance(40) {
			kind = "rst"
		}
		a.Ops = append(a.Ops, Op{K: kind})
	}
	p.Actors = append(p.Actors, a)
	p.Faults = append(p.Faults, "input."+note)
}

func genC10(seed uint64, tier string, idx int) *Plan {
	p, g := newPlan("C10", seed, tier)
	p.Target = "both"
	p.Att.Dialect = 1 + g.r.intn(5)
	p.Svc.Dialect = p.Att.Dialect
	if g.r.chance(50) {
		p.Svc.Handlers = "parse" // handlers that parse every message body, as the README recommends
	}
	p.Att.DefaultFile = g.r.chance(50)
	p.Att.Cwd = simCwd
	used := map[string]bool{}
	// well-behaved sessions
	nsvc := 1 + g.r.intn(2)
	for i := 0; i < nsvc; i++ {
		v19 := g.r.chance(50)
		ci := g.addConn("service", v19, g.distinctPhone(v19, used))
		var frames []SentFrame
		for n := 2 + g.r.intn(8); n > 0; n-- {
			id := []uint16{0x0002, 0x0200, 0x0100, 0x0102, 0x0704, 0x0801, 0x0800}[g.r.intn(7)]
			frames = append(frames, g.mkFrame(ci, id, g.randSerial(), g.wellFormedBody(id, v19, p.Conns[ci].Phone)))
		}
		g.connActor(ci, frames, g.segStyle(), 5)
	}
	if g.r.chance(70) {
		v19 := g.r.chance(50)
		ci := g.addConn("attachment", v19, g.distinctPhone(v19, used))
		g.genUpload(ci, attOpts{maxFiles: 2, maxChunks: 3, chunkMax: 200})
	}
	// hostile connections
	var hostileKeys []string
	for n := 1 + g.r.intn(3); n > 0; n-- {
		v19 := g.r.chance(50)
		if g.r.chance(60) {
			ph := g.distinctPhone(v19, used)
			if g.r.chance(35) {
				// presents the phone of an established well-behaved session (duplicate key)
				v19 = p.Conns[0].Ver19
				ph = p.Conns[0].Phone
				p.Faults = append(p.Faults, "input.duplicate_key")
			}
			ci := g.addConn("service", v19, ph)
			p.Conns[ci].Hostile = true
			s, note := g.hostileServiceStream(ci)
			g.hostileActor(ci, s, note)
			if g.r.chance(20) {
				g.slowSubPackages(p.Actors[len(p.Actors)-1], ci)
			}
			if string(p.Conns[ci].Phone) == string(p.Conns[0].Phone) {
				ha := p.Actors[len(p.Actors)-1]
				ha.Ops[0].After = &Dep{Actor: p.Actors[0].Name, N: len(p.Actors[0].Ops)}
				ha.Ops[0].MinStep = 0
			} else {
				hostileKeys = append(hostileKeys, ref.PhoneDigits(p.Conns[ci].Phone))
			}
		} else {
			ci := g.addConn("attachment", v19, g.distinctPhone(v19, used))
			p.Conns[ci].Hostile = true
			s, note := g.hostileAttStream(ci)
			g.hostileActor(ci, s, note)
		}
	}
	// a client that floods and vanishes: many complete frames in large writes, then a reset without ever reading the
	// replies. Its number must be free again afterwards (a well-behaved terminal may own it legitimately).
	var floodPhone []byte
	floodV19 := false
	if g.r.chance(12) {
		floodV19 = g.r.chance(50)
		floodPhone = g.distinctPhone(floodV19, used)
		ci := g.addConn("service", floodV19, floodPhone)
		p.Conns[ci].Hostile = true
		var stream []byte
		for n := 25 + g.r.intn(300); n > 0; n-- {
			stream = append(stream, g.mkFrame(ci, 0x0002, g.randSerial(), nil).Raw...)
		}
		a := &Actor{Name: p.Conns[ci].Label, Conn: ci, Ops: []Op{{K: "dial", MinStep: g.r.intn(60)}}}
		for off := 0; off < len(stream); {
			n := 600 + g.r.intn(3000)
			if off+n > len(stream) {
				n = len(stream) - off
			}
			a.Ops = append(a.Ops, Op{K: "send", Data: append([]byte(nil), stream[off:off+n]...), End: true})
			off += n
		}
		a.Ops = append(a.Ops, Op{K: []string{"rst", "rst", "fin"}[g.r.intn(3)]})
		p.Actors = append(p.Actors, a)
		p.Faults = append(p.Faults, "input.flood_and_vanish")
	}
	// commands kept outstanding on hostile JT808 connections, so that their malformed "responses" reach the
	// response parsers that run in the writer goroutine
	for k, key := range hostileKeys {
		if g.r.chance(60) {
			ca := &Actor{Name: fmt.Sprintf("call%d", k), Conn: -1}
			ca.Ops = append(ca.Ops, Op{K: "call", MinStep: 20 + g.r.intn(120),
				Call: &CallSpec{Key: key, Cmd: cmdIDs[g.r.intn(len(cmdIDs))], Body: []byte{0xCC, byte(k)}, Timeout: int64(time.Duration(200+g.r.intn(2000)) * time.Millisecond)}})
			p.Actors = append(p.Actors, ca)
		}
	}
	// after everything: fresh connections to both servers must still be accepted and served
	settle := &Actor{Name: "settle", Conn: -1}
	for _, a := range p.Actors {
		settle.Ops = append(settle.Ops, Op{K: "mark", Note: "wait:" + a.Name, After: &Dep{Actor: a.Name, N: len(a.Ops)}})
	}
	settle.Ops = append(settle.Ops, Op{K: "quiet"}, Op{K: "sleep", D: int64(5 * time.Second)}, Op{K: "quiet"},
		// the first well-behaved session is still online: a command for its key must reach it
		Op{K: "call", Call: &CallSpec{Key: ref.PhoneDigits(p.Conns[0].Phone), Cmd: 0x8104, Body: []byte{0xC1, 0x0E}, Timeout: int64(time.Second)}},
		Op{K: "quiet"}, Op{K: "sleep", D: int64(3 * time.Second)}, Op{K: "quiet"})
	p.Actors = append(p.Actors, settle)
	{
		v19 := g.r.chance(50)
		ci := g.addConn("service", v19, g.distinctPhone(v19, used))
		f := g.mkFrame(ci, 0x0002, 7, nil)
		p.Expect.Frames[ci] = []SentFrame{f}
		p.Actors = append(p.Actors, &Actor{Name: "fresh.svc", Conn: ci, Ops: []Op{
			{K: "dial", After: &Dep{Actor: "settle", N: len(settle.Ops)}}, {K: "send", Data: f.Raw, End: true, Frame: 1}, {K: "quiet"}}})
		p.Expect.Extra["fresh_svc"] = int64(ci)
	}
	{
		v19 := g.r.chance(50)
		ci := g.addConn("attachment", v19, g.distinctPhone(v19, used))
		body := attach1210Body(p.Att.Dialect, "TERM001", "ALARMFRESH", []UpFile{{Name: "fresh.jpg", Data: []byte{1, 2, 3}}})
		fr := ref.Frame{ID: 0x1210, Ver19: v19, VerByte: 1, Phone: p.Conns[ci].Phone, Serial: 9, Body: body}
		u := SentFrame{ID: 0x1210, Serial: 9, Body: body, Valid: true, Raw: fr.Encode()}
		p.Expect.Frames[ci] = []SentFrame{u}
		p.Actors = append(p.Actors, &Actor{Name: "fresh.att", Conn: ci, Ops: []Op{
			{K: "dial", After: &Dep{Actor: "settle", N: len(settle.Ops)}}, {K: "send", Data: u.Raw, End: true, Frame: 1}, {K: "quiet"}}})
		p.Expect.Extra["fresh_att"] = int64(ci)
	}
	if floodPhone != nil {
		ci := g.addConn("service", floodV19, floodPhone)
		f := g.mkFrame(ci, 0x0002, 8, nil)
		p.Expect.Frames[ci] = []SentFrame{f}
		p.Actors = append(p.Actors, &Actor{Name: "fresh.same", Conn: ci, Ops: []Op{
			{K: "dial", After: &Dep{Actor: "settle", N: len(settle.Ops)}}, {K: "send", Data: f.Raw, End: true, Frame: 1}, {K: "quiet"}}})
		p.Expect.Extra["fresh_same"] = int64(ci)
	}
	if g.r.chance(8) {
		p.AcceptFail = 1 + g.r.intn(2) // the listener reports a transient error (too many open files) once or twice
		p.Faults = append(p.Faults, "net.accept_error")
	}
	p.Sched = g.sched()
	p.MaxStep = 200000
	return p
}

func checkC10(r *Result) []Violation {
	var vs []Violation
	for _, c := range r.Crashes {
		sig := crashSig(c.Frames, c.Value)
		return []Violation{{Prop: "C10", Rule: "C10.crash", Sig: "C10.crash:" + sig,
			Msg:  fmt.Sprintf("panic in goroutine %s (terminates the server for every client): %s; stack: %s", c.G, c.Value, strings.Join(c.Frames, " < ")),
			Step: c.Step}}
	}
	if r.Outcome != 0 {
		// Not quiescent after a step budget hundreds of times what these scenarios need: some goroutine of the
		// server keeps spinning on what the hostile client sent. "At worst the offending connection is closed."
		return []Violation{{Prop: "C10", Rule: "C10.server_never_settles", Sig: "C10.server_never_settles",
			Msg:  fmt.Sprintf("the servers did not become quiescent within %d scheduler steps after the hostile traffic; parked: %v blocked: %v", r.Steps, r.Parked, r.Blocked),
			Step: r.Steps}}
	}
	// established sessions keep being served correctly
	for _, v := range checkReplyModel(r, replyOpts{prop: "C10", wantAll: true, numbering: true}) {
		v.Sig = "C10.other_client_affected:" + strings.TrimPrefix(v.Rule, "C10.")
		v.Rule = "C10.other_client_affected"
		return []Violation{v}
	}
	for _, up := range r.Plan.Expect.Uploads {
		if r.Plan.Conns[up.Conn].Hostile {
			continue
		}
		if _, v := checkAttReplies(r, "C10", up.Conn); v != nil {
			v.Sig = "C10.other_client_affected:" + strings.TrimPrefix(v.Rule, "C10.")
			v.Rule = "C10.other_client_affected"
			return []Violation{*v}
		}
		ctl, _ := checkAttReplies(r, "C10", up.Conn)
		for _, c := range ctl {
			if c.reply == nil {
				return []Violation{{Prop: "C10", Rule: "C10.other_client_affected", Sig: "C10.other_client_affected:att_missing_reply",
					Msg: fmt.Sprintf("well-behaved attachment session on conn %d: control frame %#04x never answered", up.Conn, c.unit.ID)}}
			}
		}
	}
	// the established session still receives the commands addressed to its key
	for _, c := range collectCalls(r) {
		if c.call.Note == "settle" && c.cmdConn != 0 {
			return []Violation{{Prop: "C10", Rule: "C10.other_client_affected", Sig: "C10.other_client_affected:command_not_routed",
				Msg:  fmt.Sprintf("after the hostile traffic a command for the established session's key %s was not written to its connection (result: %v)", c.call.Key, errOf(c.ret)),
				Step: c.call.Step}}
		}
	}
	// new connections are accepted and served
	for _, k := range []string{"fresh_svc", "fresh_att", "fresh_same"} {
		ci64, ok := r.Plan.Expect.Extra[k]
		if !ok {
			continue
		}
		ci := int(ci64)
		dialed, served := false, false
		for _, e := range r.Hist {
			if e.C == ci && e.K == KDeliver {
				dialed = true
			}
			if e.C == ci && e.K == KSrvWrite && e.Err == "" {
				served = true
			}
		}
		if dialed && !served {
			return []Violation{{Prop: "C10", Rule: "C10.new_connection_not_served", Sig: "C10.new_connection_not_served:" + k,
				Msg: fmt.Sprintf("a fresh connection (%s) opened after the hostile traffic got no reply to its first message", k)}}
		}
	}
	return vs
}

// ---- fault-point enumeration: FIN and RST of the hostile connection at every step of FIFO baselines ----

func c10Baseline(k int) *Plan {
	p := genC10(0xC10000+uint64(k), "enum", k)
	p.Sched = SchedOpts{Strategy: "fifo"}
	// the first hostile connection gets the enumerated fault
	for ci, c := range p.Conns {
		if c.Hostile {
			for _, kind := range []string{"fin", "rst"} {
				p.Actors = append(p.Actors, &Actor{Name: "enum." + kind, Conn: ci, ExplicitOnly: true, Ops: []Op{{K: kind}}})
			}
			break
		}
	}
	return p
}

var c10BaseCache = map[int][]string{}

func enumC10(t *testing.T, tier string) (int, func(i int) *Plan) {
	nb := 3
	if tier == "thorough" {
		nb = 40
	}
	type item struct {
		base, step int
		kind       string
	}
	var items []item
	for b := 0; b < nb; b++ {
		picks, ok := c10BaseCache[b]
		if !ok {
			picks = Exec(t, c10Baseline(b), false).Picks
			c10BaseCache[b] = picks
		}
		for s := 1; s <= len(picks); s++ {
			for _, kind := range []string{"fin", "rst"} {
				items = append(items, item{b, s, kind})
			}
		}
	}
	return len(items), func(i int) *Plan {
		it := items[i]
		p := c10Baseline(it.base)
		picks := c10BaseCache[it.base]
		p.Sched.Picks = append(append([]string(nil), picks[:it.step]...), "E:enum."+it.kind)
		p.Note = fmt.Sprintf("fault-point enumeration: baseline %d, %s of the hostile connection at step %d of %d", it.base, it.kind, it.step, len(picks))
		p.Faults = append(p.Faults, "enum."+it.kind)
		return p
	}
}

func init() {
	register(&propDef{ID: "C10", Gen: genC10, EnumT: enumC10, Check: checkC10,
		Interesting: func(r *Result) bool {
			// a hostile connection delivered at least one byte or closed, and a well-behaved one was served
			h, s := false, false
			for _, e := range r.Hist {
				if e.C >= 0 && e.C < len(r.Plan.Conns) {
					if r.Plan.Conns[e.C].Hostile && (e.K == KDeliver || e.K == KFin || e.K == KRst) {
						h = true
					}
					if !r.Plan.Conns[e.C].Hostile && e.K == KSrvWrite {
						s = true
					}
				}
			}
			return h && s
		}})
}

func errOf(e *Ev) string {
	if e == nil {
		return "call never returned"
	}
	if e.Err == "" {
		return "response"
	}
	return e.Err
}

// slowSubPackages appends to a hostile connection's script what a terminal on a bad link does: the first packets
// of a sub-packaged message, a silence longer than the 60 s after which the server forgets the transfer, some
// other frame, and then later packets of the same message.
func (g *genCtx) slowSubPackages(a *Actor, ci int) {
	// keep only the part of the script before a close
	for i, op := range a.Ops {
		if op.K == "fin" || op.K == "rst" {
			a.Ops = a.Ops[:i]
			break
		}
	}
	total := 3 + g.r.intn(4)
	id := []uint16{0x0200, 0x0801, 0x0704}[g.r.intn(3)]
	fr, _ := g.transferFrames(ci, id, total, 0, false)
	send := func(f SentFrame) { a.Ops = append(a.Ops, Op{K: "send", Data: f.Raw, End: true}) }
	send(fr[0])
	if g.r.chance(50) {
		send(fr[1])
	}
	a.Ops = append(a.Ops, Op{K: "quiet"}, Op{K: "sleep", D: int64(expireAfter) + int64(g.r.intn(5000))*1e6})
	send(g.mkFrame(ci, 0x0002, g.randSerial(), nil))
	a.Ops = append(a.Ops, Op{K: "quiet"})
	for _, f := range fr[2:] {
		send(f)
	}
	send(fr[1])
	a.Ops = append(a.Ops, Op{K: "quiet"})
	g.p.Faults = append(g.p.Faults, "clock.cross_60s", "input.slow_subpackages")
}
