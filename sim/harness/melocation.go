package harness

import (
	"github.com/cuteLittleDevil/go-jt808/protocol/jt808"
	"github.com/cuteLittleDevil/go-jt808/protocol/model"
)

// meLocation is the README's location handler with the vendor (Su-Biao) extension parsers: one object per
// connection, the five extension receivers reused for every location report of that connection.
type meLocation struct {
	model.T0x0200
	model.T0x0200AdditionExtension0x64
	model.T0x0200AdditionExtension0x65
	model.T0x0200AdditionExtension0x66
	model.T0x0200AdditionExtension0x67
	model.T0x0200AdditionExtension0x70
}

func (l *meLocation) Parse(jtMsg *jt808.JTMessage) error {
	l.T0x0200.CustomAdditionContentFunc = func(id uint8, content []byte) (model.AdditionContent, bool) {
		switch id {
		case 0x64:
			return l.T0x0200AdditionExtension0x64.Parse(id, content)
		case 0x65:
			return l.T0x0200AdditionExtension0x65.Parse(id, content)
		case 0x66:
			return l.T0x0200AdditionExtension0x66.Parse(id, content)
		case 0x67:
			return l.T0x0200AdditionExtension0x67.Parse(id, content)
		case 0x70:
			return l.T0x0200AdditionExtension0x70.Parse(id, content)
		}
		return model.AdditionContent{}, false
	}
	return l.T0x0200.Parse(jtMsg)
}

// String renders the report and every extension value the last Parse produced (totality of rendering is part
// of C03).
func (l *meLocation) String() string {
	s := l.T0x0200.String()
	for _, a := range l.T0x0200.Additions {
		if v, ok := a.Content.CustomValue.(interface{ String() string }); ok && v != nil {
			s += v.String()
		}
	}
	return s
}
