package harness

import (
	"bytes"
	"fmt"

	"verifsim/ref"
)

func newAttPlan(prop string, seed uint64, tier string) (*Plan, *genCtx) {
	p, g := newPlan(prop, seed, tier)
	p.Target = "attachment"
	p.Att.Dialect = 1 + g.r.intn(5)
	p.Svc.Dialect = p.Att.Dialect
	return p, g
}

func genC15(seed uint64, tier string, idx int) *Plan {
	p, g := newAttPlan("C15", seed, tier)
	n := 1 + g.r.intn(2)
	used := map[string]bool{}
	for c := 0; c < n; c++ {
		v19 := g.r.chance(50)
		ci := g.addConn("attachment", v19, g.distinctPhone(v19, used))
		cm := 400
		if tier == "thorough" && g.r.chance(10) {
			cm = 20000
		}
		g.genUpload(ci, attOpts{maxFiles: 4, maxChunks: 5, chunkMax: cm, dups: g.r.chance(50), markerPct: 15, withhold: g.r.chance(25), grouped: g.r.chance(35), second: g.r.chance(12), again1211: true, reuse: g.r.chance(15)})
	}
	p.Sched = g.sched()
	p.MaxStep = 200000
	return p
}

// attReplies pairs the control frames that were delivered with the replies on the socket.
type attCtl struct {
	unit  SentFrame
	idx   int
	reply *ref.Frame
	ev    Ev
	over  bool // the reply's body exceeds what a frame can carry (decoded leniently)
}

func checkAttReplies(r *Result, prop string, ci int) ([]attCtl, *Violation) {
	mk := func(rule, msg string, step int) *Violation {
		return &Violation{Prop: prop, Rule: prop + "." + rule, Sig: prop + "." + rule, Msg: msg, Step: step}
	}
	units := r.Plan.Expect.Frames[ci]
	delivered := unitsDeliveredBefore(r, ci, 1<<60)
	var ctl []attCtl
	for i, u := range units {
		if i < delivered && !u.Chunk {
			ctl = append(ctl, attCtl{unit: u, idx: i})
		}
	}
	var reps []Ev
	for _, e := range r.Hist {
		if e.K == KSrvWrite && e.C == ci && e.Err == "" {
			reps = append(reps, e)
		}
	}
	if len(reps) > len(ctl) {
		return ctl, mk("extra_reply", fmt.Sprintf("conn %d: %d replies for %d control frames delivered", ci, len(reps), len(ctl)), reps[len(reps)-1].Step)
	}
	for k, e := range reps {
		f, err := ref.Decode(e.Raw)
		if err != nil {
			of, ok := ref.DecodeOversized(e.Raw)
			if !ok {
				return ctl, mk("undecodable_reply", fmt.Sprintf("conn %d: reply %d does not decode: %x", ci, k, []byte(e.Raw)), e.Step)
			}
			f = of
			ctl[k].over = true
		}
		u := ctl[k].unit
		ctl[k].reply = &f
		ctl[k].ev = e
		if !bytes.Equal(f.Phone, r.Plan.Conns[ci].Phone) {
			return ctl, mk("addressing", fmt.Sprintf("conn %d: reply %d addressed to %x", ci, k, f.Phone), e.Step)
		}
		switch u.ID {
		case 0x1210, 0x1211:
			b, perr := ref.ParseP8001(f.Body)
			if f.ID != 0x8001 || perr != nil || b.Serial != u.Serial || b.ID != u.ID || b.Result != 0 {
				return ctl, mk("wrong_reply", fmt.Sprintf("conn %d: control frame %#04x serial=%d answered with id=%#04x body=%x", ci, u.ID, u.Serial, f.ID, f.Body), e.Step)
			}
		case 0x1212:
			b, perr := ref.ParseP9212(f.Body)
			if f.ID != 0x9212 || perr != nil || b.Name != string(u.Name) {
				return ctl, mk("wrong_reply", fmt.Sprintf("conn %d: 0x1212 for %q answered with id=%#04x body=%x (%v)", ci, u.Name, f.ID, f.Body, perr), e.Step)
			}
		}
	}
	return ctl, nil
}

// attAborted reports whether the session of connection ci ended in the fail-quit stage or the server closed it.
func attAborted(r *Result, ci int) (bool, string, int) {
	for _, e := range r.Hist {
		if e.C == ci && e.K == KFile && e.Stage == 8 {
			return true, e.Err, e.Step
		}
	}
	return false, "", 0
}

func checkC15(r *Result) []Violation {
	var vs []Violation
	bad := func(rule, msg string, step int) {
		vs = append(vs, Violation{Prop: "C15", Rule: "C15." + rule, Sig: "C15." + rule, Msg: msg, Step: step})
	}
	for _, up := range r.Plan.Expect.Uploads {
		ci := up.Conn
		units := r.Plan.Expect.Frames[ci]
		peerClosed := false
		for _, e := range r.Hist {
			if e.C == ci && (e.K == KFin || e.K == KRst) {
				peerClosed = true
			}
		}
		if ab, why, step := attAborted(r, ci); ab && !peerClosed {
			bad("session_aborted", fmt.Sprintf("conn %d: the session was aborted on well-formed input: %s", ci, why), step)
			return vs
		}
		ctl, v := checkAttReplies(r, "C15", ci)
		if v != nil {
			return append(vs, *v)
		}
		// every "complete" report of a file: all its bytes had arrived, content identical
		for _, e := range r.Hist {
			if e.C != ci || e.K != KFile || e.Stage != 5 {
				continue
			}
			a := r.AttEvs[e.Ref-1]
			n := unitsDeliveredBefore(r, ci, e.Step+1)
			// the files of that name announced so far (a name may be used again by a later alarm; the server has
			// processed some prefix of what was delivered, so the report is about one of them): the report is right
			// if it is right for one of them
			announced := len(up.Files)
			for _, u := range units[:n] {
				if u.ID == 0x1210 && !u.Chunk && u.Xfer > 0 {
					announced = u.Xfer
				}
			}
			var firstBad *Violation
			okForOne, cands := false, 0
			for fi, f := range up.Files {
				if string(f.Name) != a.CurName || fi >= announced {
					continue
				}
				cands++
				var got []ivl
				for _, u := range units[:n] {
					if u.Chunk && u.File == fi+1 {
						got = append(got, ivl{u.Off, u.Off + len(u.Body)})
					}
				}
				var v *Violation
				if miss := missingRanges(f.size(), got); len(miss) > 0 {
					v = &Violation{Prop: "C15", Rule: "C15.complete_with_bytes_missing", Sig: "C15.complete_with_bytes_missing", Step: e.Step,
						Msg: fmt.Sprintf("conn %d: file %q (%d bytes) reported complete although bytes %v had not arrived", ci, f.Name, f.size(), miss)}
				}
				for _, fs := range a.Files {
					if v == nil && fs.Name == string(f.Name) && !bytes.Equal(fs.Body, f.Data) {
						v = &Violation{Prop: "C15", Rule: "C15.wrong_content", Sig: "C15.wrong_content", Step: e.Step,
							Msg: fmt.Sprintf("conn %d: file %q reported complete with %d bytes that differ from the %d bytes sent", ci, f.Name, len(fs.Body), f.size())}
					}
				}
				if v == nil {
					okForOne = true
				} else {
					firstBad = v
				}
			}
			if cands > 0 && !okForOne {
				return append(vs, *firstBad)
			}
		}
		// a 0x9212 saying "complete" likewise
		for _, c := range ctl {
			if c.unit.ID != 0x1212 || c.reply == nil {
				continue
			}
			b, _ := ref.ParseP9212(c.reply.Body)
			if b.Result != 0 {
				continue
			}
			f := up.Files[c.unit.File-1]
			var got []ivl
			for _, u := range units[:c.idx] {
				if u.Chunk && u.File == c.unit.File {
					got = append(got, ivl{u.Off, u.Off + len(u.Body)})
				}
			}
			if miss := missingRanges(f.size(), got); len(miss) > 0 {
				bad("complete_with_bytes_missing", fmt.Sprintf("conn %d: 0x9212 says file %q is complete although bytes %v were never sent before that 0x1212", ci, f.Name, miss), c.ev.Step)
				return vs
			}
		}
		// at the end (connection open, everything delivered): one reply per control frame
		if !peerClosed && r.Outcome == 0 {
			for _, c := range ctl {
				if c.reply == nil {
					bad("missing_reply", fmt.Sprintf("conn %d: control frame %#04x serial=%d (unit %d) was never answered", ci, c.unit.ID, c.unit.Serial, c.idx), 0)
					return vs
				}
			}
		}
	}
	return vs
}

func foreignAtt(r *Result) string {
	if len(r.Crashes) > 0 {
		return "crash(C10)"
	}
	return ""
}

func init() {
	register(&propDef{ID: "C15", Gen: genC15, Check: withCrashRule("C15", checkC15),
		Interesting: func(r *Result) bool {
			for _, e := range r.Hist {
				if e.K == KFile && e.Stage == 5 {
					return true
				}
			}
			return false
		}})
}
