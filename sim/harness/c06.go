package harness

import (
	"bytes"
	"fmt"
	"time"

	"verifsim/ref"
)

// replyKind is the reference server model's verdict for one complete terminal message (from the property
// text and the standard, not from the code's HasReply table).
type replyKind int

const (
	replyNone replyKind = iota
	reply8001
	reply8100
	reply8800
	reply8001Any // 0x1003: a 0x8001 frame whose body is not inspected
	reply9212
)

func expectedReply(id uint16, ver19 bool, body []byte) replyKind {
	switch id {
	case 0x0002, 0x0200, 0x0704, 0x0800, 0x1005, 0x1210, 0x1211:
		return reply8001
	case 0x0102:
		if ver19 {
			if len(body) < 36 || len(body) < 1+int(body[0])+35 {
				return replyNone
			}
		}
		return reply8001
	case 0x0100:
		return reply8100
	case 0x0801:
		return reply8800
	case 0x1003:
		return reply8001Any
	case 0x1212:
		return reply9212
	}
	return replyNone
}

func authCodeOf(ver19 bool, body []byte) []byte {
	if ver19 {
		if len(body) < 1 || len(body) < 1+int(body[0]) {
			return nil
		}
		return body[1 : 1+int(body[0])]
	}
	return body
}

type replyOpts struct {
	prop       string
	callbacks  bool // check read/write callback rules
	wantAll    bool // at the end every expected reply must have been written (connection still open)
	numbering  bool
	skipClosed bool
}

// checkReplyModel runs the sequential reference server over each connection's history.
func checkReplyModel(r *Result, o replyOpts) []Violation {
	var vs []Violation
	bad := func(rule, msg string, step int) {
		vs = append(vs, Violation{Prop: o.prop, Rule: o.prop + "." + rule, Sig: o.prop + "." + rule, Msg: msg, Step: step})
	}
	issued := map[string][]byte{} // phone digits -> code issued by a 0x8100 seen in this run
	// pass 1: learn issued codes in global step order
	type wr struct {
		ev Ev
		f  ref.Frame
		ok bool
	}
	writes := map[int][]wr{}
	for _, e := range r.Hist {
		if e.K == KSrvWrite && e.Err == "" {
			f, err := ref.Decode(e.Raw)
			writes[e.C] = append(writes[e.C], wr{e, f, err == nil})
		}
	}
	for ci := range r.Plan.Conns {
		cp := r.Plan.Conns[ci]
		if cp.Server != "service" || cp.Hostile {
			continue
		}
		ended := false
		for _, e := range r.Hist {
			if e.C == ci && (e.K == KFin || e.K == KRst || e.K == KFailW) {
				ended = true
			}
		}
		ws := writes[ci]
		mixed := false // some frames of this connection present another phone / header version
		for _, f := range r.Plan.Expect.Frames[ci] {
			if f.AsVer != 0 {
				mixed = true
			}
		}
		// numbering: all frames the server wrote on this connection
		for i, w := range ws {
			if !w.ok {
				bad("undecodable_frame", fmt.Sprintf("conn %d: frame %d written by the server does not decode: %x", ci, i, []byte(w.ev.Raw)), w.ev.Step)
				return vs
			}
			if o.numbering && w.f.Serial != uint16(i) {
				bad("platform_serial", fmt.Sprintf("conn %d: frame %d written by the server (id=%#04x) carries platform serial %d, want %d", ci, i, w.f.ID, w.f.Serial, uint16(i)), w.ev.Step)
				return vs
			}
			if !mixed && (!bytes.Equal(w.f.Phone, cp.Phone) || w.f.Ver19 != cp.Ver19) {
				bad("addressing", fmt.Sprintf("conn %d: frame %d (id=%#04x) addressed to phone %x ver19=%v, terminal is %x ver19=%v", ci, i, w.f.ID, w.f.Phone, w.f.Ver19, []byte(cp.Phone), cp.Ver19), w.ev.Step)
				return vs
			}
		}
		// requests in arrival order = eventer read callbacks (handled, complete messages)
		var reqs []Ev
		for _, e := range r.Hist {
			if e.C == ci && e.K == KRead && e.Who == "eventer" {
				reqs = append(reqs, e)
			}
		}
		// replies in write order
		var reps []wr
		for _, w := range ws {
			switch w.f.ID {
			case 0x8001, 0x8100, 0x8800, 0x9212:
				reps = append(reps, w)
			}
		}
		ri := 0
		for _, q := range reqs {
			// the sender as the request's own raw frame names it (the connection's identity unless the plan mixes)
			qPhone, qV19 := []byte(cp.Phone), cp.Ver19
			if mixed {
				if qf, err := ref.Decode(q.Raw); err == nil {
					qPhone, qV19 = qf.Phone, qf.Ver19
				}
			}
			kind := expectedReply(q.ID, qV19, q.Body)
			if kind == replyNone {
				continue
			}
			if ri >= len(reps) {
				if o.wantAll && !ended && r.Outcome == 0 { // only a run that became quiescent has had its chance to answer
					bad("missing_reply", fmt.Sprintf("conn %d: message id=%#04x serial=%d got no reply (%d replies written for it and later requests)", ci, q.ID, q.Ser, len(reps)-ri), q.Step)
					return vs
				}
				break
			}
			w := reps[ri]
			ri++
			if mixed && (!bytes.Equal(w.f.Phone, qPhone) || w.f.Ver19 != qV19) {
				bad("addressing", fmt.Sprintf("conn %d: reply to id=%#04x serial=%d (sender %x ver19=%v) is addressed to phone %x ver19=%v", ci, q.ID, q.Ser, qPhone, qV19, w.f.Phone, w.f.Ver19), w.ev.Step)
				return vs
			}
			if w.ev.Step <= q.Step {
				bad("reply_before_read_callback", fmt.Sprintf("conn %d: reply to id=%#04x serial=%d written at step %d, read callback at step %d", ci, q.ID, q.Ser, w.ev.Step, q.Step), w.ev.Step)
				return vs
			}
			mismatch := func(why string) {
				bad("wrong_reply", fmt.Sprintf("conn %d: reply #%d for request id=%#04x serial=%d: %s (reply id=%#04x body=%x)", ci, ri-1, q.ID, q.Ser, why, w.f.ID, w.f.Body), w.ev.Step)
			}
			echoSerialOK := func(s uint16) bool {
				if q.Complete { // sub-packaged: any packet's serial is accepted
					return true
				}
				return s == q.Ser
			}
			switch kind {
			case reply8001:
				b, err := ref.ParseP8001(w.f.Body)
				if w.f.ID != 0x8001 || err != nil {
					mismatch("want a general response 0x8001")
					return vs
				}
				if !echoSerialOK(b.Serial) || b.ID != q.ID {
					mismatch(fmt.Sprintf("echoes serial=%d id=%#04x", b.Serial, b.ID))
					return vs
				}
				want := byte(0)
				inspect := true
				if q.ID == 0x0102 {
					code, known := issued[q.Phone]
					if !known {
						inspect = false
					} else if !bytes.Equal(code, authCodeOf(qV19, q.Body)) {
						want = 1
					}
				}
				if inspect && b.Result != want {
					mismatch(fmt.Sprintf("result %d, want %d", b.Result, want))
					return vs
				}
			case reply8001Any:
				if w.f.ID != 0x8001 {
					mismatch("want a 0x8001 frame")
					return vs
				}
			case reply8100:
				b, err := ref.ParseP8100(w.f.Body)
				if w.f.ID != 0x8100 || err != nil {
					mismatch("want a registration response 0x8100")
					return vs
				}
				if !echoSerialOK(b.Serial) || b.Result != 0 || len(b.Code) == 0 {
					mismatch(fmt.Sprintf("serial=%d result=%d code=%q", b.Serial, b.Result, b.Code))
					return vs
				}
				issued[q.Phone] = b.Code
			case reply8800:
				b, err := ref.ParseP8800(w.f.Body)
				if w.f.ID != 0x8800 || err != nil {
					mismatch("want a multimedia response 0x8800")
					return vs
				}
				if q.Complete && q.SubSum > 1 {
					// a reassembled message: the id is the one in the bytes the terminal sent (packet 1 of one of this
					// connection's transfers of that message), whatever body the server handed to the callbacks
					// (judged only when the connection sent a single transfer of that message: packets of two
					// transfers of one id may legitimately be combined, which is C05's subject)
					okID, cands, same := false, 0, 0
					for _, tr := range r.Plan.Expect.Xfers {
						if tr.Conn == ci && tr.ID == q.ID {
							same++
						}
					}
					for _, tr := range r.Plan.Expect.Xfers {
						if same != 1 || tr.Conn != ci || tr.ID != q.ID || tr.Total != int(q.SubSum) {
							continue
						}
						var whole []byte
						for _, pb := range tr.Bodies {
							whole = append(whole, pb...)
						}
						if len(whole) >= 36 {
							cands++
							if b.MediaID == uint32(whole[0])<<24|uint32(whole[1])<<16|uint32(whole[2])<<8|uint32(whole[3]) {
								okID = true
							}
						}
					}
					if cands > 0 && !okID {
						mismatch(fmt.Sprintf("multimedia id %d is not the id of any sub-packaged 0x0801 this terminal sent", b.MediaID))
						return vs
					}
				} else if len(q.Body) >= 36 { // a shorter body lacks the message's fixed fields: out of the property's domain
					want := uint32(q.Body[0])<<24 | uint32(q.Body[1])<<16 | uint32(q.Body[2])<<8 | uint32(q.Body[3])
					if b.MediaID != want {
						mismatch(fmt.Sprintf("multimedia id %d, want %d", b.MediaID, want))
						return vs
					}
				}
			case reply9212:
				if w.f.ID != 0x9212 {
					mismatch("want 0x9212")
					return vs
				}
			}
		}
		if ri < len(reps) {
			w := reps[ri]
			bad("extra_reply", fmt.Sprintf("conn %d: %d replies written but only %d requests require one; first extra: id=%#04x body=%x", ci, len(reps), ri, w.f.ID, w.f.Body), w.ev.Step)
			return vs
		}
		if o.callbacks {
			if v := checkCallbacks(r, ci, o.prop, ws2evs(ws)); v != nil {
				return append(vs, *v)
			}
		}
	}
	return vs
}

func ws2evs[T any](ws []T) int { return len(ws) }

// checkCallbacks: every handled message is reported to the read callbacks exactly once; every reply is
// reported to the write callbacks exactly once with the bytes actually sent.
func checkCallbacks(r *Result, ci int, prop string, _ int) *Violation {
	mk := func(rule, msg string, step int) *Violation {
		return &Violation{Prop: prop, Rule: prop + "." + rule, Sig: prop + "." + rule, Msg: msg, Step: step}
	}
	frames := r.Plan.Expect.Frames[ci]
	settled := r.Outcome == 0 // counts are final only in a run that became quiescent
	// expected handled messages: unfragmented handled frames in order; completed transfers are checked by count
	var wantPlain []SentFrame
	for _, f := range frames {
		if !f.Sub && isHandled(f.ID) && f.Valid {
			wantPlain = append(wantPlain, f)
		}
	}
	delivered := 0
	for _, e := range r.Hist {
		if e.K == KDeliver && e.C == ci && e.Ref > delivered {
			delivered = e.Ref
		}
	}
	wantN := 0
	for i, f := range frames {
		if i < delivered && !f.Sub && isHandled(f.ID) && f.Valid {
			wantN++
		}
	}
	for _, who := range []string{"eventer", "handler"} {
		var got []Ev
		for _, e := range r.Hist {
			if e.C == ci && e.K == KRead && e.Who == who && !e.Complete {
				got = append(got, e)
			}
		}
		if who == "handler" && r.Plan.Svc.Handlers == "default" {
			continue
		}
		if len(got) > wantN {
			return mk("read_callback_count", fmt.Sprintf("conn %d: %s read callback ran %d times for %d handled unfragmented messages", ci, who, len(got), wantN), got[len(got)-1].Step)
		}
		for k, e := range got {
			f := wantPlain[k]
			if e.ID != f.ID || e.Ser != f.Serial || !bytes.Equal(e.Body, f.Body) {
				return mk("read_callback_content", fmt.Sprintf("conn %d: %s read callback #%d reports id=%#04x serial=%d, sent id=%#04x serial=%d", ci, who, k, e.ID, e.Ser, f.ID, f.Serial), e.Step)
			}
		}
		ended := false
		for _, e := range r.Hist {
			if e.C == ci && (e.K == KFin || e.K == KRst) {
				ended = true
			}
		}
		// completed sub-packaged messages: once each
		wantC := 0
		lastOf := map[int]int{}
		for i, f := range frames {
			if f.Xfer > 0 {
				lastOf[f.Xfer] = i
			}
		}
		for _, last := range lastOf {
			if last < delivered {
				wantC++
			}
		}
		gotC := 0
		for _, e := range r.Hist {
			if e.C == ci && e.K == KRead && e.Who == who && e.Complete {
				gotC++
			}
		}
		if gotC > wantC || (!ended && settled && gotC != wantC) {
			return mk("complete_callback_count", fmt.Sprintf("conn %d: %s read callback reported %d completed sub-packaged messages, %d transfers were fully delivered", ci, who, gotC, wantC), 0)
		}
		if !ended && settled && len(got) != wantN {
			return mk("read_callback_count", fmt.Sprintf("conn %d: %s read callback ran %d times for %d handled unfragmented messages", ci, who, len(got), wantN), 0)
		}
		// write callbacks: one per reply, with the bytes on the socket, after the write
		var wcb []Ev
		for _, e := range r.Hist {
			if e.C == ci && e.K == KWrite && e.Who == who && !e.Active {
				if f, err := ref.Decode(e.PData); err == nil && f.ID == 0x8003 {
					continue // a re-request is not a reply to a complete message: outside this clause
				}
				wcb = append(wcb, e)
			}
		}
		var sw []Ev
		for _, e := range r.Hist {
			if e.C == ci && e.K == KSrvWrite && e.Err == "" {
				if f, err := ref.Decode(e.Raw); err == nil && (f.ID == 0x8001 || f.ID == 0x8100 || f.ID == 0x8800 || f.ID == 0x9212) {
					sw = append(sw, e)
				}
			}
		}
		if len(wcb) > len(sw) {
			return mk("write_callback_count", fmt.Sprintf("conn %d: %s write callback ran %d times for %d replies written", ci, who, len(wcb), len(sw)), wcb[len(wcb)-1].Step)
		}
		for k, e := range wcb {
			if !bytes.Equal(e.PData, sw[k].Raw) {
				return mk("write_callback_bytes", fmt.Sprintf("conn %d: %s write callback #%d reports %x, socket saw %x", ci, who, k, []byte(e.PData), []byte(sw[k].Raw)), e.Step)
			}
			if e.Step < sw[k].Step {
				return mk("write_callback_before_write", fmt.Sprintf("conn %d: %s write callback #%d at step %d precedes the write at step %d", ci, who, k, e.Step, sw[k].Step), e.Step)
			}
		}
		if !ended && settled && len(wcb) != len(sw) {
			return mk("write_callback_count", fmt.Sprintf("conn %d: %s write callback ran %d times for %d replies written", ci, who, len(wcb), len(sw)), 0)
		}
	}
	return nil
}

// ---- generator ----

// transferFrames builds the packets of one sub-packaged message: packet 1 first, the rest permuted, some
// duplicated.
func (g *genCtx) transferFrames(ci int, id uint16, total int, dupPct int, permute bool) ([]SentFrame, Transfer) {
	tr := Transfer{Conn: ci, ID: id, Total: total}
	serial0 := uint16(g.r.next())
	tr.Serial1 = serial0
	equal := g.r.chance(50)
	blen := 1 + g.r.intn(40)
	fl := g.r.intn(3)
	var pk []SentFrame
	for no := 1; no <= total; no++ {
		n := blen
		if !equal {
			n = 1 + g.r.intn(60)
		}
		b := g.body(n, fl)
		tr.Bodies = append(tr.Bodies, b)
		pk = append(pk, g.mkSubFrame(ci, id, serial0+uint16(no-1), uint16(total), uint16(no), b))
	}
	out := []SentFrame{pk[0]}
	rest := pk[1:]
	if permute {
		for i := len(rest) - 1; i > 0; i-- {
			j := g.r.intn(i + 1)
			rest[i], rest[j] = rest[j], rest[i]
		}
	}
	for i, f := range rest {
		out = append(out, f)
		// duplicates of packets 2..N are only sent while the transfer is still incomplete
		if dupPct > 0 && g.r.chance(dupPct) && i < len(rest)-1 {
			out = append(out, f)
			g.p.Faults = append(g.p.Faults, "pkt.dup")
		}
	}
	if permute && total > 2 {
		g.p.Faults = append(g.p.Faults, "pkt.reorder")
	}
	return out, tr
}

func genC06(seed uint64, tier string, idx int) *Plan {
	p, g := newPlan("C06", seed, tier)
	if g.r.chance(50) {
		p.Svc.Handlers = "record"
	}
	used := map[string]bool{}
	nconn := 1 + g.r.intn(4)
	maxMsgs := 25
	if tier == "thorough" {
		maxMsgs = 60
	}
	for c := 0; c < nconn; c++ {
		v19 := g.r.chance(50)
		ci := g.addConn("service", v19, g.distinctPhone(v19, used))
		n := 1 + g.r.intn(maxMsgs)
		mixed := g.r.chance(12)
		if mixed {
			g.p.Faults = append(g.p.Faults, "input.mixed_identity")
		}
		var frames []SentFrame
		nativeHandled := false
		if g.r.chance(60) {
			nativeHandled = true
			frames = append(frames, g.mkFrame(ci, 0x0100, g.randSerial(), g.wellFormedBody(0x0100, v19, p.Conns[ci].Phone)))
		}
		for len(frames) < n {
			if g.r.chance(8) {
				// a sub-packaged message, complete, of an ID that is answered
				id := []uint16{0x0200, 0x0704, 0x0801, 0x0800, 0x1005}[g.r.intn(5)]
				fr, tr := g.transferFrames(ci, id, 1+g.r.intn(5), 0, g.r.chance(50)) // a "transfer" of one packet is legal
				if id == 0x0801 {
					// keep the multimedia id field inside packet 1 well-formed: 36+ bytes in the first packet
					if tr.Total >= 2 && g.r.chance(60) {
						b := g.r.bytes(36 + g.r.intn(24))
						tr.Bodies[0] = b
						fr[0] = g.mkSubFrame(ci, id, tr.Serial1, uint16(tr.Total), 1, b)
					} else {
						fr, tr = g.transferFrames(ci, 0x0200, 2+g.r.intn(4), 0, g.r.chance(50))
					}
				}
				p.Expect.Xfers = append(p.Expect.Xfers, tr)
				for k := range fr {
					fr[k].Xfer = len(p.Expect.Xfers)
				}
				frames = append(frames, fr...)
				continue
			}
			id := g.randID()
			if mixed && nativeHandled && g.r.chance(25) {
				// a frame under another identity on the same connection (a gateway multiplexing terminals, a terminal
				// that changes its header version): answered like any other, addressed to the sender it names
				fv, fp := g.otherIdentity(ci, used)
				frames = append(frames, g.mkFrameAs(id, g.randSerial(), g.wellFormedBody(id, fv, fp), fv, fp))
				continue
			}
			body := g.wellFormedBody(id, v19, p.Conns[ci].Phone)
			if id == 0x0100 && g.r.chance(10) {
				body = body[:g.r.intn(len(body))] // a register body shorter than its layout is answered all the same
			}
			if id == 0x0102 && v19 && g.r.chance(20) {
				// the case the property names: a 2019-layout 0x0102 too short for its fixed fields is logged and not
				// answered - and must leave no trace in what follows (numbering, order)
				body = body[:g.r.intn(36)]
			}
			frames = append(frames, g.mkFrame(ci, id, g.randSerial(), body))
			if isHandled(id) {
				nativeHandled = true // the session now exists under the connection's own number
			}
		}
		a := g.connActor(ci, frames, g.segStyle(), 5)
		if g.r.chance(15) {
			// idle gaps of more than 5 s: a transfer that is open at that moment makes the server write a
			// re-request (0x8003), one more frame in the connection's numbering. In total well below 60 s.
			budget := int64(50 * time.Second)
			var ops []Op
			for _, op := range a.Ops {
				ops = append(ops, op)
				if op.K == "send" && op.End && budget > 0 && g.r.chance(20) {
					d := int64(time.Duration(5100+g.r.intn(9000)) * time.Millisecond)
					if d > budget {
						d = budget
					}
					budget -= d
					ops = append(ops, Op{K: "sleep", D: d})
				}
			}
			a.Ops = ops
			g.p.Faults = append(g.p.Faults, "clock.idle_gaps")
		}
	}
	p.Sched = g.sched()
	p.MaxStep = 100000
	return p
}

// enumC06: the serial wrap-around runs (> 65536 replies on one connection).
func enumC06(tier string) (int, func(i int) *Plan) {
	n := 1
	if tier == "thorough" {
		n = 2
	}
	return n, func(i int) *Plan {
		p, g := newPlan("C06", 0xC06000+uint64(i), tier)
		v19 := i%2 == 1
		ci := g.addConn("service", v19, g.phone(v19))
		var frames []SentFrame
		const total = 65536 + 700
		for k := 0; k < total; k++ {
			id := uint16(0x0002)
			var body []byte
			if k%97 == 3 {
				id = 0x0200
				body = g.wellFormedBody(0x0200, v19, nil)
			}
			frames = append(frames, g.mkFrame(ci, id, uint16(k), body))
		}
		g.connActor(ci, frames, "whole", 0)
		// drop the raw bytes from the expectation to keep memory low (shrinker does not need them here)
		p.Sched = SchedOpts{Strategy: "sticky", Sticky: 80}
		p.MaxStep = 4000000
		p.Note = "platform serial wrap-around"
		p.Faults = append(p.Faults, "serial.wrap")
		return p
	}
}

func checkC06(r *Result) []Violation {
	return checkReplyModel(r, replyOpts{prop: "C06", callbacks: true, wantAll: true, numbering: true})
}

func init() {
	register(&propDef{ID: "C06", Gen: genC06, Enum: enumC06, Check: withCrashRule("C06", checkC06),
		Interesting: func(r *Result) bool {
			n := 0
			for _, e := range r.Hist {
				if e.K == KSrvWrite {
					n++
				}
			}
			return n >= 2
		}})
}
