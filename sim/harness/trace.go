package harness

import "verifsim/simrt"

func traceOn() { simrt.Trace = true }
