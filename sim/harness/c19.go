package harness

import (
	"bytes"
	"fmt"
	"strings"

	"verifsim/ref"
)

const simCwd = "/srv/jt808/work"

func genC19(seed uint64, tier string, idx int) *Plan {
	p, g := newAttPlan("C19", seed, tier)
	p.Att.DefaultFile = true
	p.Att.Cwd = simCwd
	if p.Att.Dialect != 2 && g.r.chance(12) {
		p.Att.CustomData = true // a user-written data handler in front of the default file handler
		p.Faults = append(p.Faults, "config.custom_data_handler")
	}
	// files and directories outside any terminal's directory that a hostile name could hit
	p.Files = []FilePlan{
		{Path: "/etc/passwd", Data: []byte("root:x:0:0")},
		{Path: "/etc/cron.d", Dir: true},
		{Path: simCwd + "/victim", Data: []byte("victim")},
		{Path: simCwd + "/OTHER", Dir: true},
		{Path: simCwd + "/OTHER/file.bin", Data: []byte("other terminal's file")},
		{Path: "/srv/jt808/outside.txt", Data: []byte("outside")},
		{Path: "/abs", Dir: true},
	}
	n := 1 + g.r.intn(3)
	used := map[string]bool{}
	for c := 0; c < n; c++ {
		v19 := g.r.chance(50)
		ci := g.addConn("attachment", v19, g.distinctPhone(v19, used))
		g.genUpload(ci, attOpts{maxFiles: 3, maxChunks: 3, chunkMax: 200, hostile: true, finAtEnd: true})
		if g.r.chance(25) {
			// a second alarm (another 0x1210 with its own files) on the same connection before it closes
			a1 := p.Actors[len(p.Actors)-1]
			f1 := p.Expect.Frames[ci]
			g.genUpload(ci, attOpts{maxFiles: 2, maxChunks: 3, chunkMax: 200, hostile: g.r.chance(50), finAtEnd: true})
			a2 := p.Actors[len(p.Actors)-1]
			p.Actors = p.Actors[:len(p.Actors)-1]
			k := len(a1.Ops)
			for k > 0 && a1.Ops[k-1].K != "fin" {
				k--
			}
			ops := append([]Op(nil), a1.Ops[:k-1]...)
			for _, op := range a2.Ops[1:] {
				if op.Frame > 0 {
					op.Frame += len(f1)
				}
				ops = append(ops, op)
			}
			a1.Ops = ops
			p.Expect.Frames[ci] = append(append([]SentFrame(nil), f1...), p.Expect.Frames[ci]...)
			p.Faults = append(p.Faults, "input.second_alarm_same_connection")
		}
		if g.r.chance(20) {
			// the connection does not end with an orderly close: a reset, or a message the attachment server does not
			// know (a heartbeat) before the close - the session then ends in the "failed" stage
			a := p.Actors[len(p.Actors)-1]
			k := len(a.Ops)
			for k > 0 && a.Ops[k-1].K != "fin" {
				k--
			}
			if k > 0 {
				tail := []Op{{K: "rst"}, {K: "quiet"}}
				if g.r.chance(50) {
					hb := ref.Frame{ID: 0x0002, Ver19: v19, VerByte: 1, Phone: p.Conns[ci].Phone, Serial: 1}
					tail = []Op{{K: "send", Data: hb.Encode(), End: true}, {K: "quiet"}, {K: "fin"}, {K: "quiet"}}
				}
				a.Ops = append(a.Ops[:k-1:k-1], tail...)
				p.Faults = append(p.Faults, "peer.error_ending")
			}
		}
		if g.r.chance(25) {
			// close at an arbitrary earlier point
			a := p.Actors[len(p.Actors)-1]
			k := 2 + g.r.intn(len(a.Ops)-2)
			a.Ops = append(a.Ops[:k:k], Op{K: "fin"}, Op{K: "quiet"})
			truncExpectUnits(p, a)
		}
	}
	p.Sched = g.sched()
	p.MaxStep = 200000
	return p
}

func truncExpectUnits(p *Plan, a *Actor) {
	// expectations are derived from the delivery history; nothing to trim
}

func checkC19(r *Result) []Violation {
	var vs []Violation
	bad := func(rule, sig, msg string, step int) {
		vs = append(vs, Violation{Prop: "C19", Rule: "C19." + rule, Sig: "C19." + sig, Msg: msg, Step: step})
	}
	cwd := r.Plan.Att.Cwd
	allowed := []string{}
	for _, c := range r.Plan.Conns {
		allowed = append(allowed, cwd+"/"+ref.PhoneDigits(c.Phone)+"/")
	}
	inside := func(p string) bool {
		if p == cwd+"/file.log" {
			return true
		}
		for _, a := range allowed {
			if strings.HasPrefix(p, a) || p+"/" == a {
				return true
			}
		}
		return false
	}
	// the k-th connection goroutine of the attachment server serves the k-th attachment connection dialled
	var dialed []int
	for _, e := range r.Hist {
		if e.K == KDial && r.Plan.Conns[e.C].Server == "attachment" {
			dialed = append(dialed, e.C)
		}
	}
	ownerDir := func(g string) string {
		i := strings.LastIndex(g, "#")
		if i < 0 || !strings.Contains(g, "conn.run") {
			return ""
		}
		k := 0
		fmt.Sscanf(g[i+1:], "%d", &k)
		if k < 1 || k > len(dialed) {
			return ""
		}
		return cwd + "/" + ref.PhoneDigits(r.Plan.Conns[dialed[k-1]].Phone) + "/"
	}
	for _, e := range r.FSEffects {
		if own := ownerDir(e.G); own != "" && e.Path != cwd+"/file.log" && inside(e.Path) && !strings.HasPrefix(e.Path, own) && e.Path+"/" != own {
			bad("other_terminals_dir", "other_terminals_dir:"+e.Op, fmt.Sprintf("the connection of the terminal with directory %q did %s on %q, inside another terminal's directory", own, e.Op, e.Path), e.Step)
			return vs
		}
		if !inside(e.Path) {
			bad("outside_terminal_dir", "outside_terminal_dir:"+e.Op, fmt.Sprintf("the attachment server did %s on %q, which is outside the terminals' directories %v", e.Op, e.Path, allowed), e.Step)
			return vs
		}
	}
	// pre-existing files outside are unchanged
	for _, f := range r.Plan.Files {
		if f.Dir {
			continue
		}
		found := false
		for _, e := range r.FS {
			if e.Path == f.Path {
				found = true
				if !bytes.Equal(e.Data, f.Data) {
					bad("outside_file_modified", "outside_file_modified", fmt.Sprintf("pre-existing file %q was modified", f.Path), 0)
					return vs
				}
			}
		}
		if !found {
			bad("outside_file_modified", "outside_file_modified", fmt.Sprintf("pre-existing file %q disappeared", f.Path), 0)
			return vs
		}
	}
	return vs
}

func init() {
	register(&propDef{ID: "C19", Gen: genC19, Check: withCrashRule("C19", checkC19),
		Interesting: func(r *Result) bool {
			for _, e := range r.FSEffects {
				if e.Op == "create" && !strings.HasSuffix(e.Path, "/file.log") {
					return true
				}
			}
			return false
		}})
}
