package harness

import (
	"bytes"
	"fmt"
	"os"
	"reflect"
	"sort"
	"strings"

	"github.com/cuteLittleDevil/go-jt808/protocol/jt808"

	"verifsim/gen/service"
	"verifsim/simrt"
)

// checkStability compares every retained message with the deep copy taken when it was delivered (C09).
//
//go:norace
func (w *world) checkStability() []Violation {
	var out []Violation
	for _, r := range w.retain {
		if r.msg == nil {
			continue
		}
		cur := snapOf(r.msg)
		var diff []string
		if cur.ID != r.snap.ID {
			diff = append(diff, "id")
		}
		if cur.Ser != r.snap.Ser {
			diff = append(diff, "serial")
		}
		if cur.Phone != r.snap.Phone {
			diff = append(diff, "phone")
		}
		if cur.Sum != r.snap.Sum || cur.No != r.snap.No {
			diff = append(diff, "package_numbers")
		}
		if !bytes.Equal(cur.Body, r.snap.Body) {
			diff = append(diff, "body")
		}
		if !bytes.Equal(cur.TData, r.snap.TData) {
			diff = append(diff, "terminal_data")
		}
		if r.write && !bytes.Equal(cur.PData, r.snap.PData) {
			diff = append(diff, "platform_data")
		}
		foreign := cur.ReplyID == 0x8003
		for _, a := range w.plan.Actors {
			for _, op := range a.Ops {
				if op.K == "call" && op.Call != nil && op.Call.Cmd == cur.ReplyID {
					foreign = true
				}
			}
		}
		if !r.write && cur.ReplyID != r.snap.ReplyID && foreign {
			// the library encodes a message's own reply through the message's header (reply id, platform serial and
			// length change then, by design); a re-request or a platform command is never a delivered message's own reply
			diff = append(diff, fmt.Sprintf("header_used_for_another_frame(%#04x)", cur.ReplyID))
		}
		if len(diff) > 0 {
			out = append(out, Violation{Prop: "C09", Rule: "C09.changed_after_delivery",
				Sig:  "C09.changed_after_delivery:" + r.who + ":" + strings.Join(diff, "+"),
				Msg:  fmt.Sprintf("message id=%#04x serial=%d handed to %s at step %d on conn %d changed afterwards: %s", r.snap.ID, r.snap.Ser, r.who, r.step, r.conn, strings.Join(diff, ",")),
				Step: simrt.Step()})
			r.msg = nil
		}
	}
	return out
}

// parseCheck is the C03 differential oracle: the per-connection receiver that has already parsed earlier
// messages, fed the live slice, must agree with a fresh receiver fed an exact-capacity copy.
//
//go:norace
func (w *world) parseCheck(h *recHandler, msg *service.Message) {
	if msg == nil || msg.JTMessage == nil || msg.JTMessage.Header == nil {
		return
	}
	w.parseCalls++
	// Results are rendered canonically right after each Parse, before any String() call: rendering a value as
	// text may legitimately normalise the receiver (P9208AlarmSign.encode fills in a missing reserve), and that
	// must not be mistaken for a difference between the parses.
	liveErr := h.rx.Parse(msg.JTMessage)
	liveC := ""
	if liveErr == nil {
		liveC = canon(parsedValue(h.rx))
	}

	hc := *msg.JTMessage.Header
	exactBody := make([]byte, len(msg.JTMessage.Body))
	copy(exactBody, msg.JTMessage.Body)
	exact := &jt808.JTMessage{Header: &hc, Body: exactBody[:len(exactBody):len(exactBody)], VerifyCode: msg.JTMessage.VerifyCode}

	fe := h.mk()
	feErr := fe.Parse(exact)
	feC := ""
	if feErr == nil {
		feC = canon(parsedValue(fe))
	}

	hc2 := *msg.JTMessage.Header
	fl := h.mk()
	flErr := fl.Parse(&jt808.JTMessage{Header: &hc2, Body: msg.JTMessage.Body, VerifyCode: msg.JTMessage.VerifyCode})
	flC := ""
	if flErr == nil {
		flC = canon(parsedValue(fl))
	}

	// totality of rendering (a panic here is recorded by the goroutine wrapper as a decoder panic)
	_ = stringOf(h.rx, liveErr)
	_ = stringOf(fe, feErr)

	id := msg.JTMessage.Header.ID
	same := func(e1, e2 error, a, b string) bool {
		if (e1 == nil) != (e2 == nil) {
			return false
		}
		return e1 != nil || a == b // both failed: the outcome is "error"
	}
	if !same(flErr, feErr, flC, feC) {
		if os.Getenv("VERIF_DEBUG") != "" {
			fmt.Fprintf(os.Stderr, "C03 DEBUG beyond_slice id=%#04x dialect=%d body=%x\n flErr=%v feErr=%v\n live =%s\n exact=%s\n", id, w.plan.Svc.Dialect, exactBody, flErr, feErr, flC, feC)
		}
		where := ""
		if flErr == nil && feErr == nil {
			where = ":" + firstDiff(parsedValue(fl), parsedValue(fe), 0)
		}
		w.parseViol = append(w.parseViol, Violation{Prop: "C03", Rule: "C03.beyond_slice",
			Sig:  fmt.Sprintf("C03.beyond_slice:%#04x%s", id, where),
			Msg:  fmt.Sprintf("parsing body of %#04x (%d bytes) gives a different outcome when the same bytes sit in a buffer with other data behind them", id, len(exactBody)),
			Step: simrt.Step()})
		return
	}
	if !same(liveErr, flErr, liveC, flC) {
		if os.Getenv("VERIF_DEBUG") != "" {
			fmt.Fprintf(os.Stderr, "C03 DEBUG id=%#04x liveErr=%v flErr=%v\n live=%s\n fresh=%s\n", id, liveErr, flErr, liveC, flC)
		}
		field := "error"
		if liveErr == nil && flErr == nil {
			// re-parse into two fresh receivers is not possible for the live one; name the field from a re-parse pair
			fr := h.mk()
			_ = fr.Parse(&jt808.JTMessage{Header: &hc2, Body: msg.JTMessage.Body, VerifyCode: msg.JTMessage.VerifyCode})
			field = firstDiff(parsedValue(h.rx), parsedValue(fr), 0)
		}
		w.parseViol = append(w.parseViol, Violation{Prop: "C03", Rule: "C03.receiver_history",
			Sig:  fmt.Sprintf("C03.receiver_history:%#04x:%s", id, field),
			Msg:  fmt.Sprintf("a receiver of %#04x that parsed earlier bodies gives a different result than a fresh one for the same body (%x)", id, exactBody),
			Step: simrt.Step()})
		return
	}
}

// parsedValue is what a Parse call produced: the receiver itself, except for the README's location type, where it
// is the embedded location report (its additions reference the extension values this parse filled in; an
// extension receiver the body had no item for was not given anything to parse and is not part of the result).
//
//go:norace
func parsedValue(h any) reflect.Value {
	if ml, ok := h.(*meLocation); ok {
		return reflect.ValueOf(&ml.T0x0200)
	}
	return reflect.ValueOf(h)
}

// stringOf renders a successfully parsed value as text (totality of String is part of C03).
//
//go:norace
func stringOf(v any, err error) string {
	if err != nil {
		return ""
	}
	if s, ok := v.(fmt.Stringer); ok {
		return s.String()
	}
	return ""
}

// canon renders the exported data of a value canonically: nil and empty slices/maps are identified,
// function fields ignored, pointers followed.
//
//go:norace
func canon(v reflect.Value) string {
	var b strings.Builder
	canonInto(&b, v, 0)
	return b.String()
}

//go:norace
func canonInto(b *strings.Builder, v reflect.Value, depth int) {
	if depth > 12 || !v.IsValid() {
		b.WriteString("~")
		return
	}
	switch v.Kind() {
	case reflect.Pointer, reflect.Interface:
		if v.IsNil() {
			b.WriteString("nil")
			return
		}
		canonInto(b, v.Elem(), depth+1)
	case reflect.Struct:
		b.WriteString("{")
		t := v.Type()
		for i := 0; i < v.NumField(); i++ {
			f := t.Field(i)
			if !f.IsExported() {
				continue
			}
			if f.Type.Kind() == reflect.Func {
				continue
			}
			b.WriteString(f.Name)
			b.WriteString(":")
			canonInto(b, v.Field(i), depth+1)
			b.WriteString(";")
		}
		b.WriteString("}")
	case reflect.Slice, reflect.Array:
		if v.Kind() == reflect.Slice && v.Len() == 0 {
			b.WriteString("[]")
			return
		}
		b.WriteString("[")
		for i := 0; i < v.Len(); i++ {
			canonInto(b, v.Index(i), depth+1)
			b.WriteString(",")
		}
		b.WriteString("]")
	case reflect.Map:
		if v.Len() == 0 {
			b.WriteString("map[]")
			return
		}
		keys := v.MapKeys()
		ks := make([]string, len(keys))
		for i, k := range keys {
			// the key's numeric value, not its String(): distinct keys may print alike
			switch {
			case k.CanInt():
				ks[i] = fmt.Sprintf("%020d", k.Int())
			case k.CanUint():
				ks[i] = fmt.Sprintf("%020d", k.Uint())
			case k.Kind() == reflect.String:
				ks[i] = k.String()
			default:
				ks[i] = fmt.Sprintf("%#v", k.Interface())
			}
		}
		idx := make([]int, len(keys))
		for i := range idx {
			idx[i] = i
		}
		sort.Slice(idx, func(a, c int) bool { return ks[idx[a]] < ks[idx[c]] })
		b.WriteString("map[")
		for _, i := range idx {
			b.WriteString(ks[i])
			b.WriteString(":")
			canonInto(b, v.MapIndex(keys[i]), depth+1)
			b.WriteString(",")
		}
		b.WriteString("]")
	case reflect.Func, reflect.Chan, reflect.UnsafePointer:
		b.WriteString("-")
	default:
		if v.CanInterface() {
			fmt.Fprintf(b, "%v", v.Interface())
		} else {
			fmt.Fprintf(b, "%v", v)
		}
	}
}

// firstDiff names the first exported field (up to three levels deep) whose canonical rendering differs.
//
//go:norace
func firstDiff(a, b reflect.Value, depth int) string {
	for a.IsValid() && (a.Kind() == reflect.Pointer || a.Kind() == reflect.Interface) && !a.IsNil() {
		a = a.Elem()
	}
	for b.IsValid() && (b.Kind() == reflect.Pointer || b.Kind() == reflect.Interface) && !b.IsNil() {
		b = b.Elem()
	}
	if !a.IsValid() || !b.IsValid() || a.Kind() != reflect.Struct || b.Kind() != reflect.Struct || a.Type() != b.Type() {
		return "?"
	}
	t := a.Type()
	for i := 0; i < a.NumField(); i++ {
		f := t.Field(i)
		if !f.IsExported() || f.Type.Kind() == reflect.Func {
			continue
		}
		if canon(a.Field(i)) != canon(b.Field(i)) {
			if depth < 1 && f.Anonymous {
				fa, fb := a.Field(i), b.Field(i)
				for fa.Kind() == reflect.Pointer && !fa.IsNil() {
					fa = fa.Elem()
				}
				for fb.Kind() == reflect.Pointer && !fb.IsNil() {
					fb = fb.Elem()
				}
				if fa.Kind() == reflect.Struct && fb.Kind() == reflect.Struct && fa.Type() == fb.Type() {
					return f.Name + "." + firstDiff(fa, fb, depth+1)
				}
			}
			if fa, fb := a.Field(i), b.Field(i); fa.Kind() == reflect.Map && fb.Kind() == reflect.Map {
				// name the entry: the smallest key (by its printed form) whose values differ or that only one side has
				best := ""
				for _, m := range []reflect.Value{fa, fb} {
					for _, k := range m.MapKeys() {
						x, y := fa.MapIndex(k), fb.MapIndex(k)
						if x.IsValid() && y.IsValid() && canon(x) == canon(y) {
							continue
						}
						if ks := fmt.Sprintf("%#v", k.Interface()); best == "" || ks < best {
							best = ks
						}
					}
				}
				return f.Name + "[" + best + "]"
			}
			return f.Name
		}
	}
	return "?"
}
