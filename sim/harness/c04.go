package harness

import (
	"bytes"
	"fmt"
	"strings"
	"time"

	"verifsim/ref"
)

// terminal-originated IDs the default table handles, and some it does not
var handledIDs = []uint16{0x0001, 0x0002, 0x0100, 0x0102, 0x0104, 0x0200, 0x0704, 0x0800, 0x0801, 0x0805, 0x1003, 0x1005, 0x1205, 0x1206, 0x1210, 0x1211, 0x1212}
var unsupportedIDs = []uint16{0x0003, 0x0004, 0x0107, 0x0108, 0x0201, 0x0301, 0x0302, 0x0500, 0x0700, 0x0701, 0x0702, 0x0705, 0x0802, 0x0900, 0x0901, 0x0a00, 0x0005, 0x0608, 0x1fff, 0x0fff}

func isHandled(id uint16) bool {
	for _, h := range handledIDs {
		if h == id {
			return true
		}
	}
	return false
}

// addConn appends a connection to the plan and returns its index.
func (g *genCtx) addConn(server string, ver19 bool, phone []byte) int {
	ci := len(g.p.Conns)
	g.p.Conns = append(g.p.Conns, &ConnPlan{Label: fmt.Sprintf("c%d", ci), Server: server, Phone: phone, Ver19: ver19, WriteErrAfterClose: true})
	g.p.Expect.Frames = append(g.p.Expect.Frames, nil)
	return ci
}

// mkFrame encodes a terminal frame with refcodec and returns its expectation record.
func (g *genCtx) mkFrame(ci int, id, serial uint16, body []byte) SentFrame {
	c := g.p.Conns[ci]
	f := ref.Frame{ID: id, Ver19: c.Ver19, VerByte: 1, Phone: c.Phone, Serial: serial, Body: body}
	return SentFrame{ID: id, Serial: serial, Body: body, Valid: true, Raw: f.Encode()}
}

// mkFrameAs builds a frame that presents another phone number and/or header version than its connection's.
func (g *genCtx) mkFrameAs(id, serial uint16, body []byte, v19 bool, phone []byte) SentFrame {
	f := ref.Frame{ID: id, Ver19: v19, VerByte: 1, Phone: phone, Serial: serial, Body: body}
	av := 1
	if v19 {
		av = 2
	}
	return SentFrame{ID: id, Serial: serial, Body: body, Valid: true, Raw: f.Encode(), AsVer: av, AsPhone: append([]byte(nil), phone...)}
}

// otherIdentity derives a foreign identity from a connection's: another phone, the other header version, or both.
func (g *genCtx) otherIdentity(ci int, used map[string]bool) (bool, []byte) {
	c := g.p.Conns[ci]
	v19, phone := c.Ver19, c.Phone
	kind := g.r.intn(3)
	if kind != 0 { // the other header version, same digits where they fit
		v19 = !v19
		if v19 {
			phone = append(make([]byte, 4), phone...)
		} else {
			phone = append([]byte(nil), phone[len(phone)-6:]...)
		}
	}
	if kind != 1 { // another number, nobody else's
		phone = g.distinctPhone(v19, used)
	}
	return v19, phone
}

func (g *genCtx) mkSubFrame(ci int, id, serial uint16, total, no uint16, body []byte) SentFrame {
	c := g.p.Conns[ci]
	f := ref.Frame{ID: id, Ver19: c.Ver19, VerByte: 1, Phone: c.Phone, Serial: serial, Body: body, Sub: true, Total: total, No: no}
	return SentFrame{ID: id, Serial: serial, Body: body, Valid: true, Raw: f.Encode(), Sub: true, Total: total, No: no}
}

// streamOf concatenates frames and returns the stream and the frame end offsets.
func streamOf(frames []SentFrame) ([]byte, []int) {
	var s []byte
	var ends []int
	for _, f := range frames {
		s = append(s, f.Raw...)
		ends = append(ends, len(s))
	}
	return s, ends
}

// connActor builds the actor that dials connection ci and sends frames under a segmentation style.
func (g *genCtx) connActor(ci int, frames []SentFrame, style string, quietPct int) *Actor {
	g.p.Expect.Frames[ci] = frames
	stream, ends := streamOf(frames)
	a := &Actor{Name: g.p.Conns[ci].Label, Conn: ci}
	a.Ops = append(a.Ops, Op{K: "dial"})
	if len(stream) > 0 {
		for _, op := range g.segment(stream, ends, style, 1023) {
			a.Ops = append(a.Ops, op)
			if quietPct > 0 && g.r.chance(quietPct) {
				a.Ops = append(a.Ops, Op{K: "quiet"})
			}
		}
	}
	a.Ops = append(a.Ops, Op{K: "quiet"})
	g.p.Actors = append(g.p.Actors, a)
	switch style {
	case "bytewise":
		g.p.Faults = append(g.p.Faults, "seg.bytewise")
	case "coalesce", "whole":
		g.p.Faults = append(g.p.Faults, "seg.coalesce")
	case "nasty":
		g.p.Faults = append(g.p.Faults, "seg.cut_in_escape", "seg.cut_before_delim")
	case "random":
		g.p.Faults = append(g.p.Faults, "seg.split")
	}
	for _, f := range frames {
		if len(f.Raw) > 1023 {
			g.p.Faults = append(g.p.Faults, "seg.over_buffer")
			break
		}
	}
	return a
}

func (g *genCtx) randID() uint16 {
	if g.r.chance(20) {
		return unsupportedIDs[g.r.intn(len(unsupportedIDs))]
	}
	return handledIDs[g.r.intn(len(handledIDs))]
}

func (g *genCtx) randSerial() uint16 {
	switch g.r.intn(8) {
	case 0:
		return 0
	case 1:
		return 65535
	default:
		return uint16(g.r.next())
	}
}

func genC04(seed uint64, tier string, idx int) *Plan {
	p, g := newPlan("C04", seed, tier)
	used := map[string]bool{}
	nconn := 1 + g.r.intn(3)
	var prelude *Actor
	if g.r.chance(15) {
		// earlier connections that died in the middle of a frame: whatever they leave behind in the server
		// must not influence the framing of the connections that follow
		for k := 0; k < 1+g.r.intn(3); k++ {
			v19 := g.r.chance(50)
			ci := g.addConn("service", v19, g.distinctPhone(v19, used))
			p.Conns[ci].Hostile = true
			f := g.mkFrame(ci, 0x0200, g.randSerial(), g.body(20+g.r.intn(200), g.r.intn(4)))
			a := &Actor{Name: p.Conns[ci].Label, Conn: ci, Ops: []Op{{K: "dial"}}}
			if prelude != nil {
				a.Ops[0].After = &Dep{Actor: prelude.Name, N: len(prelude.Ops)}
			}
			if g.r.chance(50) {
				h := g.mkFrame(ci, 0x0002, g.randSerial(), nil)
				a.Ops = append(a.Ops, Op{K: "send", Data: h.Raw, End: true})
			}
			a.Ops = append(a.Ops, Op{K: "send", Data: f.Raw[:1+g.r.intn(len(f.Raw)-1)]}, Op{K: "quiet"}, Op{K: []string{"fin", "rst"}[g.r.intn(2)]}, Op{K: "quiet"})
			p.Actors = append(p.Actors, a)
			prelude = a
		}
		p.Faults = append(p.Faults, "peer.close_mid_frame")
	}
	for c := 0; c < nconn; c++ {
		v19 := g.r.chance(50)
		ci := g.addConn("service", v19, g.distinctPhone(v19, used))
		n := 1 + g.r.intn(12)
		long := c == 0 && g.r.chance(3)
		if long {
			// a long-lived connection: more than 8 KB of ordinary frames whose reads hardly ever end on a frame
			// boundary, so that the pending buffer is never empty
			n = 90 + g.r.intn(80)
			p.Faults = append(p.Faults, "input.long_misaligned_stream")
		}
		var frames []SentFrame
		for i := 0; i < n; i++ {
			id := g.randID()
			max := 1023
			if g.r.chance(70) || long {
				max = 120
			}
			frames = append(frames, g.mkFrame(ci, id, g.randSerial(), g.body(g.bodyLen(max), g.r.intn(4))))
		}
		style := g.segStyle()
		if long {
			style = "random"
		}
		a := g.connActor(ci, frames, style, 15)
		if prelude != nil {
			a.Ops[0].After = &Dep{Actor: prelude.Name, N: len(prelude.Ops)}
		}
	}
	p.Sched = g.sched()
	p.MaxStep = 60000
	return p
}

// c04Bases are the fixed short streams whose cut positions are enumerated.
func c04Base(k int) (*Plan, *genCtx, []SentFrame) {
	p, g := newPlan("C04", 0xC04000+uint64(k), "enum")
	v19 := k%2 == 1
	ci := g.addConn("service", v19, g.phone(v19))
	n := 2 + k%3
	var frames []SentFrame
	for i := 0; i < n; i++ {
		id := []uint16{0x0002, 0x0200, 0x0102, 0x0705, 0x0001, 0x0100}[(k+i)%6]
		blen := []int{0, 3, 7, 12, 20, 5}[(k+2*i)%6]
		fl := (k + i) % 3
		if fl == 0 {
			fl = 2
		}
		frames = append(frames, g.mkFrame(ci, id, uint16(100*k+i), g.body(blen, fl)))
	}
	return p, g, frames
}

// c04Long: a frame of more than 1023 bytes on the wire (a 1015-byte body), then two short ones.
func c04Long() (*Plan, *genCtx, []SentFrame) {
	p, g := newPlan("C04", 0xC04FFE, "enum")
	ci := g.addConn("service", true, g.phone(true))
	frames := []SentFrame{
		g.mkFrame(ci, 0x0900, 0x0101, g.body(1015, 0)),
		g.mkFrame(ci, 0x0002, 0x0102, nil),
		g.mkFrame(ci, 0x0200, 0x0103, g.wellFormedBody(0x0200, true, nil)),
	}
	return p, g, frames
}

// c04Batch: 69 heartbeats of the minimal frame size (15 bytes: 2013 header, empty body, nothing to escape).
func c04Batch() (*Plan, *genCtx, []SentFrame) {
	p, g := newPlan("C04", 0xC04FFF, "enum")
	ci := g.addConn("service", false, []byte{0x01, 0x38, 0x12, 0x34, 0x56, 0x78})
	var frames []SentFrame
	for serial := uint16(0x0100); len(frames) < 69; serial++ {
		f := g.mkFrame(ci, 0x0002, serial, nil)
		if len(f.Raw) == 15 {
			frames = append(frames, f)
		}
	}
	return p, g, frames
}

func enumC04(tier string) (int, func(i int) *Plan) {
	nb1, nb2 := 2, 0
	if tier == "thorough" {
		nb1, nb2 = 10, 4
	}
	type item struct{ base, c1, c2 int }
	var items []item
	for b := 0; b < nb1; b++ {
		_, _, fr := c04Base(b)
		s, _ := streamOf(fr)
		for c := 1; c < len(s); c++ {
			items = append(items, item{b, c, 0})
		}
	}
	for b := 0; b < nb2; b++ {
		_, _, fr := c04Base(b)
		s, _ := streamOf(fr)
		if len(s) > 120 {
			continue
		}
		for c1 := 1; c1 < len(s); c1++ {
			for c2 := c1 + 1; c2 < len(s); c2++ {
				items = append(items, item{b, c1, c2})
			}
		}
	}
	// a full read: the tail of a pending frame plus as many minimal frames as a 1023-byte read can hold
	for _, c := range []int{12, 13, 14} {
		items = append(items, item{-1, c, 0})
	}
	// a frame longer than one read, cut after a full read's worth, with more than 5 s before the rest arrives
	for _, c := range []int{1023, 1024, 1030} {
		items = append(items, item{-2, c, 0})
	}
	return len(items), func(i int) *Plan {
		it := items[i]
		var p *Plan
		var g *genCtx
		var fr []SentFrame
		if it.base == -2 {
			p, g, fr = c04Long()
		} else if it.base < 0 {
			p, g, fr = c04Batch()
		} else {
			p, g, fr = c04Base(it.base)
		}
		g.p.Expect.Frames[0] = fr
		s, ends := streamOf(fr)
		isEnd := map[int]int{}
		for k, e := range ends {
			isEnd[e] = k + 1
		}
		cuts := []int{it.c1}
		if it.c2 > 0 {
			cuts = append(cuts, it.c2)
		}
		cuts = append(cuts, len(s))
		a := &Actor{Name: "c0", Conn: 0, Ops: []Op{{K: "dial"}}}
		prev := 0
		for _, c := range cuts {
			op := Op{K: "send", Data: append([]byte(nil), s[prev:c]...)}
			if fi, ok := isEnd[c]; ok {
				op.End, op.Frame = true, fi
			} else {
				for e := c; e > prev; e-- {
					if fi, ok := isEnd[e]; ok {
						op.Frame = fi
						break
					}
				}
			}
			a.Ops = append(a.Ops, op, Op{K: "quiet"})
			if it.base == -2 && prev == 0 {
				a.Ops = append(a.Ops, Op{K: "sleep", D: int64(5500 * time.Millisecond)}, Op{K: "quiet"})
			}
			prev = c
		}
		p.Actors = []*Actor{a}
		p.Sched = SchedOpts{Strategy: "fifo"}
		p.Note = fmt.Sprintf("enum base=%d cuts=%d,%d of %d", it.base, it.c1, it.c2, len(s))
		p.Faults = []string{"seg.enum_cut"}
		p.MaxStep = 20000
		return p
	}
}

// deliveredPerConn collects the eventer's read/notsup callbacks per connection, in order.
func deliveredPerConn(r *Result, who string) map[int][]Ev {
	out := map[int][]Ev{}
	for _, e := range r.Hist {
		if (e.K == KRead || e.K == KNotSup) && e.Who == who {
			out[e.C] = append(out[e.C], e)
		}
	}
	return out
}

func checkC04(r *Result) []Violation {
	var vs []Violation
	bad := func(rule, msg string, step int) {
		vs = append(vs, Violation{Prop: "C04", Rule: rule, Sig: rule, Msg: msg, Step: step})
	}
	got := deliveredPerConn(r, "eventer")
	for ci, frames := range r.Plan.Expect.Frames {
		if r.Plan.Conns[ci].Server != "service" || r.Plan.Conns[ci].Hostile {
			continue
		}
		// how many frames were completely delivered by the environment, and when
		completeAt := map[int]int{} // frame index -> step of the deliver event that completed it
		done := 0
		for _, e := range r.Hist {
			if e.K == KDeliver && e.C == ci && e.Ref > done {
				for k := done; k < e.Ref; k++ {
					completeAt[k] = e.Step
				}
				done = e.Ref
			}
		}
		evs := got[ci]
		// subcontract frames are filtered until complete; C04 plans contain none
		if len(evs) > done {
			bad("C04.extra_message", fmt.Sprintf("conn %d: %d messages extracted from %d delivered frames", ci, len(evs), done), evs[len(evs)-1].Step)
			continue
		}
		for k, e := range evs {
			f := frames[k]
			want := ref.PhoneDigits(r.Plan.Conns[ci].Phone)
			switch {
			case e.ID != f.ID || e.Ser != f.Serial:
				bad("C04.wrong_message", fmt.Sprintf("conn %d: message %d is id=%#04x serial=%d, sent id=%#04x serial=%d", ci, k, e.ID, e.Ser, f.ID, f.Serial), e.Step)
			case !bytes.Equal(e.Body, f.Body):
				bad("C04.wrong_body", fmt.Sprintf("conn %d: message %d (id=%#04x serial=%d) body differs from the %d bytes sent", ci, k, f.ID, f.Serial, len(f.Body)), e.Step)
			case e.Phone != want:
				bad("C04.wrong_phone", fmt.Sprintf("conn %d: message %d phone %q, sent %q", ci, k, e.Phone, want), e.Step)
			case e.Step <= completeAt[k]:
				bad("C04.early_message", fmt.Sprintf("conn %d: message %d reported at step %d before its closing delimiter was delivered (step %d)", ci, k, e.Step, completeAt[k]), e.Step)
			}
			if (e.K == KNotSup) == isHandled(f.ID) {
				bad("C04.wrong_callback", fmt.Sprintf("conn %d: message %d id=%#04x reported through %s", ci, k, f.ID, e.K), e.Step)
			}
		}
		// timeliness: at every quiescent point all completely delivered frames have been reported
		seen, delivered := 0, 0
		closed := false
		for _, e := range r.Hist {
			if e.C != ci {
				continue
			}
			switch e.K {
			case KDeliver:
				if e.Ref > delivered {
					delivered = e.Ref
				}
			case KRead, KNotSup:
				if e.Who == "eventer" {
					seen++
				}
			case KFin, KRst:
				closed = true
			case KQuiet:
				if !closed && seen < delivered {
					bad("C04.missing_message", fmt.Sprintf("conn %d: at quiescence (step %d) %d frames fully delivered but only %d messages extracted", ci, e.Step, delivered, seen), e.Step)
				}
			}
		}
		if len(vs) > 0 {
			break
		}
	}
	return vs
}

func foreignCrash(r *Result) string {
	if len(r.Crashes) > 0 {
		return "crash(C10/C13)"
	}
	return ""
}

// crashOnWellFormed: the scenarios of C04, C05, C06, C09, C11, C12, C14, C15, C16, C19 and C20 contain only
// well-formed traffic; a panic in a server goroutine there breaks the property's own promise (messages are
// delivered / answered / stored), so it is reported under that property, identified by the crash site.
func crashOnWellFormed(prop string, r *Result) []Violation {
	for _, c := range r.Crashes {
		sig := crashSig(c.Frames, c.Value)
		return []Violation{{Prop: prop, Rule: prop + ".server_panic_on_wellformed_input", Sig: prop + ".server_panic_on_wellformed_input:" + sig,
			Msg:  "a server goroutine panicked although every client behaved well: " + c.Value + "; stack: " + strings.Join(c.Frames, " < "),
			Step: c.Step}}
	}
	return nil
}

// withCrashRule wraps a property's oracle with crashOnWellFormed.
func withCrashRule(prop string, check func(*Result) []Violation) func(*Result) []Violation {
	return func(r *Result) []Violation {
		if v := crashOnWellFormed(prop, r); v != nil {
			return v
		}
		return check(r)
	}
}

func init() {
	register(&propDef{ID: "C04", Gen: genC04, Enum: enumC04, Check: withCrashRule("C04", checkC04),
		Interesting: func(r *Result) bool {
			// non-trivial: at least one frame was split across reads or shared a read with another frame
			for _, a := range r.Plan.Actors {
				for _, op := range a.Ops {
					if op.K == "send" && (!op.End || countDelims(op.Data) > 2) {
						return true
					}
				}
			}
			return false
		}})
}

func countDelims(b []byte) int {
	n := 0
	for _, x := range b {
		if x == 0x7e {
			n++
		}
	}
	return n
}
