package harness

import (
	"encoding/json"
	"fmt"
	"os"
	"path/filepath"
	"testing"
	"time"
)

// ReplayFile is what a VIOLATION line points at.
type ReplayFile struct {
	Property string    `json:"property"`
	Rule     string    `json:"rule"`
	Sig      string    `json:"sig"`
	Msg      string    `json:"msg"`
	Step     int       `json:"step"`
	RunSeed  uint64    `json:"run_seed"`
	LogHash  string    `json:"log_hash_unshrunk"`
	Shrunk   ShrinkLog `json:"shrunk"`
	Plan     *Plan     `json:"plan"`
}

type ShrinkLog struct {
	Execs      int `json:"execs"`
	ActorsFrom int `json:"actors_from"`
	ActorsTo   int `json:"actors_to"`
	OpsFrom    int `json:"ops_from"`
	OpsTo      int `json:"ops_to"`
	PicksFrom  int `json:"picks_from"`
	PicksTo    int `json:"picks_to"`
}

var lastShrink ShrinkLog

func countOps(p *Plan) int {
	n := 0
	for _, a := range p.Actors {
		n += len(a.Ops)
	}
	return n
}

// reproduces runs the plan under its recorded (lenient) schedule and reports whether the same rule fires; on
// success it returns the plan re-recorded with the schedule that actually ran.
func reproduces(t *testing.T, pd *propDef, p *Plan, rule string) (*Plan, bool) {
	res := Exec(t, p, true)
	for _, v := range pd.Check(res) {
		if v.Rule == rule {
			q := p.Clone()
			q.Sched.Picks = res.Picks
			q.Sched.Perms = res.Perms
			return q, true
		}
	}
	return nil, false
}

// shrink minimises plan then schedule while the same oracle rule of the same property keeps firing.
func shrink(t *testing.T, pd *propDef, p *Plan, v Violation, known map[string]bool) *Plan {
	deadline := time.Now().Add(45 * time.Second)
	lg := ShrinkLog{ActorsFrom: len(p.Actors), OpsFrom: countOps(p), PicksFrom: len(p.Sched.Picks)}
	if pd.ID == "C18" {
		// The race detector reports a given pair of stacks once per process, so the race that was just found
		// cannot fire again here; anything a re-execution reports would be a different race. The recorded
		// plan and schedule are kept as they are and replayed in a fresh process by the driver.
		lg.ActorsTo, lg.OpsTo, lg.PicksTo = lg.ActorsFrom, lg.OpsFrom, lg.PicksFrom
		lastShrink = lg
		return p
	}
	best := p
	execs := 0
	try := func(c *Plan) bool {
		if time.Now().After(deadline) || execs > 1500 {
			return false
		}
		execs++
		if q, ok := reproduces(t, pd, c, v.Rule); ok {
			best = q
			return true
		}
		return false
	}
	// the recorded schedule must reproduce to begin with; otherwise keep the original untouched
	if !try(best) {
		lg.Execs = execs
		lg.ActorsTo, lg.OpsTo, lg.PicksTo = len(best.Actors), countOps(best), len(best.Sched.Picks)
		lastShrink = lg
		return p
	}
	changed := true
	for round := 0; changed && round < 6; round++ {
		changed = false
		// 1. drop whole actors
		for i := len(best.Actors) - 1; i >= 0; i-- {
			if len(best.Actors) <= 1 {
				break
			}
			c := best.Clone()
			c.Actors = append(c.Actors[:i:i], c.Actors[i+1:]...)
			if try(c) {
				changed = true
			}
		}
		// 2. drop trailing ops of each actor down to a frame boundary; drop single non-send ops
		for ai := range best.Actors {
			for {
				a := best.Actors[ai]
				n := len(a.Ops)
				if n <= 1 {
					break
				}
				// largest cut first: halve
				cut := n / 2
				ok := false
				for ; cut >= 1; cut /= 2 {
					keep := n - cut
					if !cutOK(a, keep) {
						continue
					}
					c := best.Clone()
					c.Actors[ai].Ops = c.Actors[ai].Ops[:keep]
					truncExpect(c, c.Actors[ai])
					if try(c) {
						ok = true
						changed = true
						break
					}
				}
				if !ok {
					break
				}
			}
			for oi := len(best.Actors[ai].Ops) - 1; oi >= 0; oi-- {
				op := best.Actors[ai].Ops[oi]
				if op.K == "send" || op.K == "dial" {
					continue
				}
				c := best.Clone()
				ops := c.Actors[ai].Ops
				c.Actors[ai].Ops = append(ops[:oi:oi], ops[oi+1:]...)
				if try(c) {
					changed = true
				}
			}
		}
		// 3. simplify segmentation: one frame per read
		for ai := range best.Actors {
			c := best.Clone()
			if resegment(c, c.Actors[ai]) && try(c) {
				changed = true
			}
		}
		// 4. reactions: make them plain
		for ci := range best.Conns {
			if len(best.Conns[ci].React) == 0 {
				continue
			}
			c := best.Clone()
			c.Conns[ci].React = nil
			if try(c) {
				changed = true
			}
		}
	}
	// 5. schedule: drop permutations, then delete runs of picks (delta debugging)
	{
		c := best.Clone()
		c.Sched.Perms = nil
		try(c)
	}
	for chunk := len(best.Sched.Picks) / 2; chunk >= 1; chunk /= 2 {
		for i := 0; i+chunk <= len(best.Sched.Picks); {
			c := best.Clone()
			c.Sched.Picks = append(c.Sched.Picks[:i:i], c.Sched.Picks[i+chunk:]...)
			before := len(best.Sched.Picks)
			if try(c) && len(best.Sched.Picks) < before {
				continue
			}
			i += chunk
		}
		if time.Now().After(deadline) {
			break
		}
	}
	lg.Execs = execs
	lg.ActorsTo, lg.OpsTo, lg.PicksTo = len(best.Actors), countOps(best), len(best.Sched.Picks)
	lastShrink = lg
	return best
}

// cutOK: ops[:keep] must end at a frame boundary of the byte stream (or contain no sends after keep).
func cutOK(a *Actor, keep int) bool {
	// find the last send among the kept ops
	for i := keep - 1; i >= 0; i-- {
		if a.Ops[i].K == "send" {
			return a.Ops[i].End
		}
	}
	return true
}

// truncExpect drops the expectations for frames the actor no longer sends.
func truncExpect(p *Plan, a *Actor) {
	if p.Expect == nil || a.Conn < 0 || a.Conn >= len(p.Expect.Frames) {
		return
	}
	last := 0
	for _, op := range a.Ops {
		if op.K == "send" && op.Frame > last {
			last = op.Frame
		}
	}
	// other actors may drive the same connection: only truncate if this actor is the connection's sender
	fr := p.Expect.Frames[a.Conn]
	if last < len(fr) {
		p.Expect.Frames[a.Conn] = fr[:last]
	}
}

// resegment replaces an actor's run of send ops by one op per frame, using the raw frames in Expect.
func resegment(p *Plan, a *Actor) bool {
	if p.Expect == nil || a.Conn < 0 || a.Conn >= len(p.Expect.Frames) {
		return false
	}
	fr := p.Expect.Frames[a.Conn]
	var ops []Op
	next := 0
	changed := false
	pendingBytes := 0
	for _, op := range a.Ops {
		if op.K != "send" {
			if pendingBytes != 0 {
				return false // a non-send op sits inside a frame: leave this actor alone
			}
			ops = append(ops, op)
			continue
		}
		pendingBytes += len(op.Data)
		for next < len(fr) && len(fr[next].Raw) > 0 && pendingBytes >= len(fr[next].Raw) {
			if len(op.Data) != len(fr[next].Raw) {
				changed = true
			}
			ops = append(ops, Op{K: "send", Data: fr[next].Raw, End: true, Frame: next + 1})
			pendingBytes -= len(fr[next].Raw)
			next++
		}
	}
	if pendingBytes != 0 || !changed {
		return false
	}
	a.Ops = ops
	return true
}

func writeReplay(prop string, seed uint64, p *Plan, v Violation, logHash uint64) string {
	dir := os.Getenv("VERIF_REPLAY_DIR")
	if dir == "" {
		dir = "/verif/replays"
	}
	_ = os.MkdirAll(dir, 0o755)
	rf := ReplayFile{Property: prop, Rule: v.Rule, Sig: v.Sig, Msg: v.Msg, Step: v.Step, RunSeed: seed,
		LogHash: fmt.Sprintf("%016x", logHash), Shrunk: lastShrink, Plan: p}
	b, _ := json.MarshalIndent(rf, "", " ")
	path := filepath.Join(dir, fmt.Sprintf("%s-%016x.json", prop, seed))
	_ = os.WriteFile(path, b, 0o644)
	return path
}

// workerReplay re-executes a replay file; PRNG-free.
func workerReplay(t *testing.T) {
	path := os.Getenv("VERIF_REPLAY")
	b, err := os.ReadFile(path)
	if err != nil {
		t.Fatal(err)
	}
	var rf ReplayFile
	if err := json.Unmarshal(b, &rf); err != nil {
		t.Fatal(err)
	}
	pd := props[rf.Property]
	if pd == nil {
		t.Fatalf("unknown property %q", rf.Property)
	}
	startWatchdog()
	if os.Getenv("VERIF_TRACE") != "" {
		traceOn()
	}
	// The plan is executed up to three times in this fresh process. A deterministic violation reproduces on the
	// first execution; one that needs state the code under test carries from one run to the next (a package-level
	// pool or cache - state no seam owns) reproduces on a later one. The procedure is itself a fixed function of the
	// file and the code.
	var res *Result
	var vs []Violation
	for attempt := 1; attempt <= 3; attempt++ {
		res = Exec(t, rf.Plan, true)
		vs = pd.Check(res)
		if os.Getenv("VERIF_TRACE") != "" {
			for _, l := range res.Log {
				fmt.Fprintln(os.Stderr, l)
			}
			for _, e := range res.Hist {
				eb, _ := json.Marshal(e)
				fmt.Fprintln(os.Stderr, string(eb))
			}
		}
		for _, v := range vs {
			if v.Rule == rf.Rule && (rf.Property != "C18" || v.Sig == rf.Sig) {
				fmt.Fprintf(os.Stderr, "REPRODUCED property=%s rule=%s sig=%s loghash=%016x steps=%d execution=%d\n  %s\n", rf.Property, v.Rule, v.Sig, res.LogHash, res.Steps, attempt, v.Msg)
				return
			}
		}
		if rf.Property == "C18" {
			break // the race detector reports a pair of stacks once per process
		}
	}
	fmt.Fprintf(os.Stderr, "NOT-REPRODUCED property=%s rule=%s (run produced %d other violations) loghash=%016x\n", rf.Property, rf.Rule, len(vs), res.LogHash)
	for _, v := range vs {
		fmt.Fprintf(os.Stderr, "  other: %s %s\n", v.Rule, v.Msg)
	}
}

// loadKnown reads the committed known-findings file: only status "known" suppresses, and only an identical
// signature.
func loadKnown(path string) map[string]bool {
	out := map[string]bool{}
	if path == "" {
		return out
	}
	b, err := os.ReadFile(path)
	if err != nil {
		return out
	}
	for _, line := range splitLines(string(b)) {
		var e struct {
			Status    string `json:"status"`
			Signature string `json:"signature"`
		}
		if json.Unmarshal([]byte(line), &e) == nil && e.Status == "known" && e.Signature != "" {
			out[e.Signature] = true
		}
	}
	return out
}

func splitLines(s string) []string {
	var out []string
	cur := ""
	for _, c := range s {
		if c == '\n' {
			if cur != "" {
				out = append(out, cur)
			}
			cur = ""
		} else {
			cur += string(c)
		}
	}
	if cur != "" {
		out = append(out, cur)
	}
	return out
}
