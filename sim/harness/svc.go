package harness

import (
	"bytes"
	"fmt"
	"time"

	"github.com/cuteLittleDevil/go-jt808/protocol/jt808"
	"github.com/cuteLittleDevil/go-jt808/protocol/model"
	"github.com/cuteLittleDevil/go-jt808/shared/consts"

	"verifsim/gen/service"
	"verifsim/simnet"
	"verifsim/simrt"
)

// svcHarness wires the real service package (rewritten copy) to the recorder.
type svcHarness struct {
	w   *world
	srv *service.GoJT808
}

// retained is a message handed to a callback, kept together with a deep copy taken at that moment.
type retained struct {
	conn  int
	step  int
	who   string
	msg   *service.Message
	snap  msgSnap
	write bool
}

type msgSnap struct {
	ID, Ser, Sum, No uint16
	ReplyID          uint16
	Phone            string
	Body, TData      []byte
	PData            []byte
}

//go:norace
func snapOf(m *service.Message) msgSnap {
	var s msgSnap
	if m.JTMessage != nil && m.JTMessage.Header != nil {
		h := m.JTMessage.Header
		s.ID, s.Ser, s.Sum, s.No, s.Phone = h.ID, h.SerialNumber, h.SubPackageSum, h.SubPackageNo, h.TerminalPhoneNo
		s.ReplyID = h.ReplyID
		s.Body = bytes.Clone(m.JTMessage.Body)
	}
	s.TData = bytes.Clone(m.ExtensionFields.TerminalData)
	s.PData = bytes.Clone(m.ExtensionFields.PlatformData)
	return s
}

//go:norace
func (w *world) startService() {
	h := &svcHarness{w: w}
	w.svc = h
	opts := []service.Option{
		service.WithHostPorts(w.plan.Svc.Addr),
		service.WithHasSubcontract(w.plan.Svc.Filter),
	}
	if !w.plan.Svc.DefaultEvents {
		opts = append(opts, service.WithCustomTerminalEventer(func() service.TerminalEventer {
			return &recEventer{w: w, conn: connOfPeer(simnet.LastAccepted)}
		}))
	}
	if w.plan.Svc.KeyMode != "" {
		plan := w.plan
		opts = append(opts, service.WithKeyFunc(func(m *service.Message) (string, bool) {
			if plan.Svc.KeyMode == "tag-nohb" && m.JTMessage.Header.ID == 0x0002 {
				return "", false
			}
			return plan.KeyOfDigits(m.JTMessage.Header.TerminalPhoneNo), true
		}))
	}
	switch w.plan.Svc.Handlers {
	case "record", "parse":
		parse := w.plan.Svc.Handlers == "parse"
		opts = append(opts, service.WithCustomHandleFunc(func() map[consts.JT808CommandType]service.Handler {
			ci := connOfPeer(simnet.LastAccepted)
			m := map[consts.JT808CommandType]service.Handler{}
			tbl := modelTable(w.plan.Svc.Dialect)
			if w.plan.Svc.Ext {
				tbl[consts.T0200LocationReport] = func() service.JT808Handler { return &meLocation{} }
			}
			for id, mk := range tbl {
				m[id] = &recHandler{JT808Handler: mk(), rx: mk(), w: w, conn: ci, parse: parse, mk: mk}
			}
			return m
		}))
	}
	h.srv = service.New(opts...)
	simrt.GoNamed("svc.Run", "svc.Run", h.srv.Run)
}

//go:norace
func connOfPeer(p *simnet.Peer) int {
	if p == nil {
		return -1
	}
	if cs, ok := p.User.(*connState); ok {
		return cs.idx
	}
	return -1
}

// modelTable: one constructor per terminal-originated message ID that has a model type (the default table's
// terminal side). Custom handlers embed these exactly like the README pattern does.
//
//go:norace
func modelTable(dialect int) map[consts.JT808CommandType]func() service.JT808Handler {
	as := consts.ActiveSafetyType(dialect)
	return map[consts.JT808CommandType]func() service.JT808Handler{
		consts.T0001GeneralRespond:               func() service.JT808Handler { return &model.T0x0001{} },
		consts.T0002HeartBeat:                    func() service.JT808Handler { return &model.T0x0002{} },
		consts.T0100Register:                     func() service.JT808Handler { return &model.T0x0100{} },
		consts.T0102RegisterAuth:                 func() service.JT808Handler { return &model.T0x0102{} },
		consts.T0104QueryParameter:               func() service.JT808Handler { return &model.T0x0104{} },
		consts.T0200LocationReport:               func() service.JT808Handler { return &model.T0x0200{} },
		consts.T0704LocationBatchUpload:          func() service.JT808Handler { return &model.T0x0704{} },
		consts.T0800MultimediaEventInfoUpload:    func() service.JT808Handler { return &model.T0x0800{} },
		consts.T0801MultimediaDataUpload:         func() service.JT808Handler { return &model.T0x0801{} },
		consts.T0805CameraShootImmediately:       func() service.JT808Handler { return &model.T0x0805{} },
		consts.T1003UploadAudioVideoAttr:         func() service.JT808Handler { return &model.T0x1003{} },
		consts.T1005UploadPassengerFlow:          func() service.JT808Handler { return &model.T0x1005{} },
		consts.T1205UploadAudioVideoResourceList: func() service.JT808Handler { return &model.T0x1205{} },
		consts.T1206FileUploadCompleteNotice:     func() service.JT808Handler { return &model.T0x1206{} },
		consts.T1210AlarmAttachInfoMessage: func() service.JT808Handler {
			return &model.T0x1210{P9208AlarmSign: model.P9208AlarmSign{ActiveSafetyType: as}}
		},
		consts.T1211FileInfoUpload:     func() service.JT808Handler { return &model.T0x1211{} },
		consts.T1212FileUploadComplete: func() service.JT808Handler { return &model.T0x1212{} },
	}
}

// evOfMsg renders a service.Message as a history event (deep copies).
//
//go:norace
func evOfMsg(k string, ci int, who string, m *service.Message) Ev {
	e := Ev{K: k, C: ci, Who: who, G: simrt.CurName()}
	if m == nil {
		return e
	}
	if m.JTMessage != nil && m.JTMessage.Header != nil {
		h := m.JTMessage.Header
		e.ID, e.Ser, e.Phone, e.Ver = h.ID, h.SerialNumber, h.TerminalPhoneNo, int(h.ProtocolVersion)
		e.SubSum, e.SubNo = h.SubPackageSum, h.SubPackageNo
		e.Body = bytes.Clone(m.JTMessage.Body)
	}
	x := &m.ExtensionFields
	e.Raw = bytes.Clone(x.TerminalData)
	e.Complete = x.SubcontractComplete
	e.PSeq, e.PCmd, e.Active = x.PlatformSeq, uint16(x.PlatformCommand), x.ActiveSend
	e.PData = bytes.Clone(x.PlatformData)
	if x.Err != nil {
		e.Err = x.Err.Error()
	}
	return e
}

// ---- TerminalEventer ----

type recEventer struct {
	w    *world
	conn int
}

//go:norace
func (r *recEventer) OnJoinEvent(msg *service.Message, key string, err error) {
	if simrt.RaceMode {
		touch(msg)
		return
	}
	e := evOfMsg(KJoin, r.conn, "eventer", msg)
	e.Key = key
	if err != nil {
		e.Err = err.Error()
	}
	r.w.rec(e)
}

//go:norace
func (r *recEventer) OnLeaveEvent(key string) {
	r.w.rec(Ev{K: KLeave, C: r.conn, Key: key, G: simrt.CurName()})
}

//go:norace
func (r *recEventer) OnNotSupportedEvent(msg *service.Message) {
	r.w.onMsgCallback(KNotSup, r.conn, "eventer", msg, false)
}

//go:norace
func (r *recEventer) OnReadExecutionEvent(msg *service.Message) {
	r.w.onMsgCallback(KRead, r.conn, "eventer", msg, false)
}

//go:norace
func (r *recEventer) OnWriteExecutionEvent(msg service.Message) {
	r.w.onMsgCallback(KWrite, r.conn, "eventer", &msg, true)
}

// ---- per-connection custom handler (README pattern: embeds the model type) ----

type recHandler struct {
	service.JT808Handler
	// rx is the receiver the read callback parses into, message after message (the reused per-connection
	// receiver of C03). It is only ever touched by the connection's reader goroutine; the embedded handler
	// above is the one the library calls ReplyBody on in the writer goroutine. Sharing one object between the
	// two goroutines would be a race of the handler's author, not of the library.
	rx    service.JT808Handler
	w     *world
	conn  int
	parse bool
	mk    func() service.JT808Handler
}

//go:norace
func (h *recHandler) OnReadExecutionEvent(msg *service.Message) {
	h.w.onMsgCallback(KRead, h.conn, "handler", msg, false)
	if h.parse && !simrt.RaceMode {
		h.w.parseCheck(h, msg)
	}
}

//go:norace
func (h *recHandler) OnWriteExecutionEvent(msg service.Message) {
	h.w.onMsgCallback(KWrite, h.conn, "handler", &msg, true)
}

// onMsgCallback records a callback, retains the message for the stability oracle, and (like user code would)
// reads the bytes it was given.
//
//go:norace
func (w *world) onMsgCallback(k string, ci int, who string, m *service.Message, write bool) {
	if simrt.RaceMode {
		touch(m)
		return
	}
	e := evOfMsg(k, ci, who, m)
	if w.plan.Expect != nil && w.plan.Expect.Extra["retain"] != 0 && who == "eventer" && (k == KRead || k == KWrite || k == KNotSup) {
		if len(w.stabViol) == 0 {
			w.stabViol = append(w.stabViol, w.checkStability()...)
		}
		w.retain = append(w.retain, &retained{conn: ci, step: simrt.Step(), who: k, msg: m, snap: snapOf(m), write: write})
		e.Ref = len(w.retain)
	}
	w.rec(e)
}

// touch reads what a handler would read; race-instrumented on purpose (it stands in for user handler code).
func touch(m *service.Message) byte {
	var x byte
	if m == nil {
		return 0
	}
	if m.JTMessage != nil {
		for _, b := range m.JTMessage.Body {
			x ^= b
		}
		if m.JTMessage.Header != nil {
			x ^= byte(m.JTMessage.Header.ID) ^ byte(m.JTMessage.Header.SerialNumber) ^ byte(len(m.JTMessage.Header.TerminalPhoneNo))
		}
	}
	for _, b := range m.ExtensionFields.TerminalData {
		x ^= b
	}
	for _, b := range m.ExtensionFields.PlatformData {
		x ^= b
	}
	if m.ExtensionFields.Err != nil {
		x ^= 1
	}
	return x
}

// ---- platform callers ----

//go:norace
func (w *world) startCall(actor string, c *CallSpec) {
	w.calls++
	n := w.calls
	srv := w.svc.srv
	body := append([]byte(nil), c.Body...)
	w.rec(Ev{K: KCall, C: -1, N: n, Key: c.Key, PCmd: c.Cmd, Body: body, Note: actor, D: c.Timeout})
	simrt.GoNamed("caller:"+actor, "caller", func() {
		am := service.NewActiveMessage(c.Key, consts.JT808CommandType(c.Cmd), body, time.Duration(c.Timeout))
		m := srv.SendActiveMessage(am)
		w.callReturned(n, actor, m)
	})
}

//go:norace
func (w *world) callReturned(n int, actor string, m *service.Message) {
	if simrt.RaceMode {
		touch(m)
		w.rets++
		return
	}
	e := evOfMsg(KRet, -1, "caller", m)
	e.N = n
	e.Note = actor
	w.rets++
	w.rec(e)
}

var _ = fmt.Sprint
var _ = jt808.NewJTMessage
