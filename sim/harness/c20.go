package harness

import (
	"bytes"
	"encoding/hex"
	"fmt"

	"github.com/cuteLittleDevil/go-jt808/protocol/jt808"
	"github.com/cuteLittleDevil/go-jt808/shared/consts"
	"github.com/cuteLittleDevil/go-jt808/terminal"

	"verifsim/ref"
)

// terminal-originated commands of the simulator's default table
var termCmds = []uint16{0x0001, 0x0002, 0x0100, 0x0102, 0x0200, 0x0704, 0x1003, 0x1205, 0x1206, 0x1210, 0x1211, 0x1212}

// c20Phone draws a decimal phone; sometimes one whose template frame has check code 0x7e or 0x7d (the case
// WithHeader escapes by hand).
func (g *genCtx) c20Phone(ver consts.ProtocolVersionType) string {
	max := 12
	if ver == consts.JT808Protocol2019 {
		max = 20
	}
	mk := func() string {
		n := 1 + g.r.intn(max)
		if g.r.chance(50) {
			n = max
		}
		b := make([]byte, n)
		for i := range b {
			b[i] = byte('0' + g.r.intn(10))
		}
		if b[0] == '0' {
			b[0] = '1'
		}
		return string(b)
	}
	want := -1
	switch g.r.intn(4) {
	case 0:
		want = 0x7e
	case 1:
		want = 0x7d
	}
	for try := 0; try < 3000; try++ {
		p := mk()
		if want < 0 {
			return p
		}
		// check code of the template frame: XOR over id, property, [version], BCD phone, serial 0
		pad := fmt.Sprintf("%012s", p)
		x := byte(0x00 ^ 0x02 ^ 0x00 ^ 0x00)
		if ver == consts.JT808Protocol2019 {
			pad = fmt.Sprintf("%020s", p)
			x = 0x00 ^ 0x02 ^ 0x40 ^ 0x00 ^ 0x01 ^ 0x00 ^ 0x02
		}
		bcd, _ := hex.DecodeString(pad)
		for _, v := range bcd {
			x ^= v
		}
		if int(x) == want {
			g.p.Faults = append(g.p.Faults, fmt.Sprintf("input.template_checksum_%02x", want))
			return p
		}
	}
	return mk()
}

func genC20(seed uint64, tier string, idx int) (p *Plan) {
	p, g := newPlan("C20", seed, tier)
	defer func() {
		if r := recover(); r != nil {
			p.Expect.Extra["generator_panic"] = 1
			p.Note = fmt.Sprint("terminal simulator panicked while generating frames: ", r)
		}
	}()
	used := map[string]bool{}
	nconn := 1 + g.r.intn(2)
	for c := 0; c < nconn; c++ {
		ver := []consts.ProtocolVersionType{consts.JT808Protocol2011, consts.JT808Protocol2013, consts.JT808Protocol2019}[g.r.intn(3)]
		phone := g.c20Phone(ver)
		for used[phone] {
			phone = g.c20Phone(ver)
		}
		used[phone] = true
		t := terminal.New(terminal.WithHeader(ver, phone))
		v19 := ver == consts.JT808Protocol2019
		// BCD phone as it appears on the wire
		pad := fmt.Sprintf("%012s", phone)
		if v19 {
			pad = fmt.Sprintf("%020s", phone)
		}
		bcd, _ := hex.DecodeString(pad)
		ci := g.addConn("service", v19, bcd)
		p.Conns[ci].Label = fmt.Sprintf("c%d", ci)
		p.Expect.Extra[fmt.Sprintf("ver%d", ci)] = int64(ver)
		n := 1 + g.r.intn(20)
		var frames []SentFrame
		serial := 0
		for i := 0; i < n; i++ {
			if g.r.chance(8) {
				// a request for a command the simulator has no default body for yields no frame; the next frame's
				// serial is still one greater than the previous frame's
				un := []uint16{0x0104, 0x0805, 0x0800, 0x0801, 0x0705, 0x8001, 0x0000, 0xffff}[g.r.intn(8)]
				if raw := t.CreateDefaultCommandData(consts.JT808CommandType(un)); len(raw) == 0 {
					p.Faults = append(p.Faults, "input.unsupported_command_requested")
					continue
				} else {
					serial++
					frames = append(frames, SentFrame{ID: un, Serial: uint16(serial), Raw: raw, Valid: true, Name: HexStr(phone), Default: true})
					continue
				}
			}
			serial++
			cmd := termCmds[g.r.intn(len(termCmds))]
			var raw []byte
			custom := g.r.chance(45)
			var customBody []byte
			if custom {
				body := g.wellFormedBody(cmd, v19, bcd)
				if g.r.chance(6) && (cmd == 0x0102 && !v19 || cmd == 0x0002) {
					body = nil // an empty custom body where the type accepts one
				}
				if cmd == 0x0200 && g.r.chance(12) {
					// a location report filled with vendor items up to the largest bodies a single frame can carry
					target := g.r.pick(999, 1000, 1001, 1022, 1023, 1000+g.r.intn(24))
					body = body[:28]
					for id := byte(0xe1); len(body) < target; id++ {
						l := target - len(body) - 2
						if l > 255 {
							l = 255
						}
						if rem := target - len(body) - 2 - l; rem == 1 {
							l-- // never leave a single byte over: an item needs its two-byte head
						}
						if l < 0 {
							body = append(body, 0)[:target]
							break
						}
						body = append(append(body, id, byte(l)), g.r.bytes(l)...)
					}
					p.Faults = append(p.Faults, "input.body_at_frame_limit")
				}
				customBody = body
				// custom bodies stay well-formed: the property speaks of frames whose body parses with the
				// matching message type; the reply to a body the type rejects is outside its domain
				raw = t.CreateCommandData(consts.JT808CommandType(cmd), body)
			} else {
				raw = t.CreateDefaultCommandData(consts.JT808CommandType(cmd))
			}
			sf := SentFrame{ID: cmd, Serial: uint16(serial), Raw: raw, Valid: true, Name: HexStr(phone), Default: !custom}
			if custom {
				sf.Body = customBody
			}
			frames = append(frames, sf)
			if g.r.chance(40) {
				// a user predicts the reply right away, for whatever platform serial: must not disturb the
				// simulator's own serial progression
				_ = t.ExpectedReply(uint16(g.r.next()), hex.EncodeToString(raw))
			}
		}
		g.connActor(ci, frames, g.segStyle(), 0)
	}
	p.Sched = g.sched()
	p.MaxStep = 100000
	return p
}

// enumC20: serial wrap of the terminal simulator (65536+ frames from one Terminal value).
func enumC20(tier string) (int, func(i int) *Plan) {
	n := 1
	if tier == "thorough" {
		n = 2
	}
	return n, func(i int) *Plan {
		p, g := newPlan("C20", 0xC20000+uint64(i), tier)
		phone := "13812345678"
		ver, width := consts.JT808Protocol2013, 12
		if i == 1 {
			ver, width = consts.JT808Protocol2019, 20
		}
		t := terminal.New(terminal.WithHeader(ver, phone))
		bcd, _ := hex.DecodeString(fmt.Sprintf("%0*s", width, phone))
		ci := g.addConn("service", i == 1, bcd)
		p.Expect.Extra["ver0"] = int64(ver)
		var frames []SentFrame
		for k := 0; k < 65536+300; k++ {
			frames = append(frames, SentFrame{ID: 0x0002, Serial: uint16(k + 1), Raw: t.CreateDefaultCommandData(consts.T0002HeartBeat), Valid: true, Name: HexStr(phone)})
		}
		g.connActor(ci, frames, "whole", 0)
		p.Sched = SchedOpts{Strategy: "sticky", Sticky: 80}
		p.MaxStep = 4000000
		p.Note = "terminal serial wrap-around"
		return p
	}
}

// defaultBodyRoundTrip parses a generated frame's body with a fresh value of the matching message type and, where
// the type can encode, compares the re-encoded body with the original.
func defaultBodyRoundTrip(raw []byte, id uint16) string {
	mk := modelTable(1)[consts.JT808CommandType(id)]
	if mk == nil {
		return ""
	}
	msg := jt808.NewJTMessage()
	if err := msg.Decode(raw); err != nil {
		return "frame does not decode: " + err.Error()
	}
	h := mk()
	if err := h.Parse(msg); err != nil {
		return "body does not parse: " + err.Error()
	}
	if enc, ok := h.(interface{ Encode() []byte }); ok {
		if got := enc.Encode(); !bytes.Equal(got, msg.Body) {
			return fmt.Sprintf("body re-encodes to %x", got)
		}
	}
	return ""
}

func checkC20(r *Result) []Violation {
	var vs []Violation
	bad := func(rule, msg string, step int) {
		vs = append(vs, Violation{Prop: "C20", Rule: "C20." + rule, Sig: "C20." + rule, Msg: msg, Step: step})
	}
	if r.Plan.Expect.Extra["generator_panic"] != 0 {
		bad("generator_panic", r.Plan.Note, 0)
		return vs
	}
	for ci, frames := range r.Plan.Expect.Frames {
		if len(frames) == 0 {
			continue
		}
		cp := r.Plan.Conns[ci]
		ver := consts.ProtocolVersionType(r.Plan.Expect.Extra[fmt.Sprintf("ver%d", ci)])
		phone := string(frames[0].Name)
		// precondition (rides along): every generated frame is a well-formed frame of that version for that
		// phone, with consecutive serials
		var decoded []ref.Frame
		for k, f := range frames {
			d, err := ref.Decode(f.Raw)
			if err != nil {
				bad("generated_frame_undecodable", fmt.Sprintf("frame %d (command %#04x, version %v, phone %s) does not decode: %v: %x", k, f.ID, ver, phone, err, []byte(f.Raw)), 0)
				return vs
			}
			if d.ID != f.ID || d.Ver19 != cp.Ver19 || !bytes.Equal(d.Phone, cp.Phone) {
				bad("generated_frame_header", fmt.Sprintf("frame %d: id=%#04x ver19=%v phone=%x, want id=%#04x ver19=%v phone=%x", k, d.ID, d.Ver19, d.Phone, f.ID, cp.Ver19, []byte(cp.Phone)), 0)
				return vs
			}
			if d.Serial != uint16(k+1) {
				bad("generated_frame_serial", fmt.Sprintf("frame %d carries serial %d, previous+1 is %d", k, d.Serial, uint16(k+1)), 0)
				return vs
			}
			decoded = append(decoded, d)
			// a frame with the simulator's own default body: the body parses with the matching message type (a
			// fresh value of it) and re-encodes to the identical bytes - whatever the Terminal value was used for
			// before (custom bodies, ExpectedReply calls)
			if !f.Default && !bytes.Equal(d.Body, f.Body) {
				bad("custom_body_not_carried", fmt.Sprintf("frame %d (command %#04x, version %v, phone %s): CreateCommandData was given body %x, the frame carries %x", k, f.ID, ver, phone, []byte(f.Body), d.Body), 0)
				return vs
			}
			if f.Default {
				if why := defaultBodyRoundTrip(f.Raw, f.ID); why != "" {
					bad("default_body_not_parseable", fmt.Sprintf("frame %d (command %#04x, version %v, phone %s) with the simulator's default body: %s: %x", k, f.ID, ver, phone, why, []byte(f.Raw)), 0)
					return vs
				}
			}
		}
		// replies of the live server, paired in order with the reply-bearing requests of the reference model
		var reps []Ev
		for _, e := range r.Hist {
			if e.C == ci && e.K == KSrvWrite && e.Err == "" {
				reps = append(reps, e)
			}
		}
		delivered := 0
		for _, e := range r.Hist {
			if e.K == KDeliver && e.C == ci && e.Ref > delivered {
				delivered = e.Ref
			}
		}
		var reqs []int
		for k := 0; k < delivered && k < len(frames); k++ {
			if expectedReply(frames[k].ID, cp.Ver19, decoded[k].Body) != replyNone {
				reqs = append(reqs, k)
			}
		}
		if len(reps) != len(reqs) {
			continue // the server disagrees with the reply model: C06's business, not a statement about the simulator
		}
		t := terminal.New(terminal.WithHeader(ver, phone))
		for i, e := range reps {
			k := reqs[i]
			sf, err := ref.Decode(e.Raw)
			if err != nil {
				continue
			}
			want := t.ExpectedReply(sf.Serial, hex.EncodeToString(frames[k].Raw))
			if !bytes.Equal(want, e.Raw) {
				bad("predicted_reply_differs", fmt.Sprintf("command %#04x (version %v, phone %s, frame %x): server replied %x, ExpectedReply(%d) predicts %x", frames[k].ID, ver, phone, []byte(frames[k].Raw), []byte(e.Raw), sf.Serial, want), e.Step)
				return vs
			}
		}
	}
	return vs
}

func init() {
	register(&propDef{ID: "C20", Gen: genC20, Enum: enumC20, Check: withCrashRule("C20", checkC20),
		Interesting: func(r *Result) bool {
			n := 0
			for _, e := range r.Hist {
				if e.K == KSrvWrite {
					n++
				}
			}
			return n >= 2
		}})
}
