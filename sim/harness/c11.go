package harness

import (
	"fmt"
	"strings"
	"time"

	"github.com/anishathalye/porcupine"

	"verifsim/ref"
)

// genC11: a few keys, several connections competing for them, disconnects, reconnects, concurrent sends.
func genC11(seed uint64, tier string, idx int) *Plan {
	p, g := newPlan("C11", seed, tier)
	if g.r.chance(30) {
		p.Svc.KeyMode = "tag" // a key function whose keys are not the phone numbers
		if g.r.chance(40) {
			p.Svc.KeyMode = "tag-nohb" // ... and that has no key for a heartbeat
		}
		p.Faults = append(p.Faults, "config.custom_key_func")
	}
	nkeys := 2 + g.r.intn(2)
	type key struct {
		phone []byte
		v19   bool
	}
	var keys []key
	used := map[string]bool{}
	for k := 0; k < nkeys; k++ {
		v19 := g.r.chance(50)
		keys = append(keys, key{g.distinctPhone(v19, used), v19})
	}
	nconn := 3 + g.r.intn(6)
	var prevOfKey = map[int]string{} // last connection actor using a key
	killedOfKey := map[int]int{}     // key -> connection (index+1) the server will drop because of a corrupt frame
	for c := 0; c < nconn; c++ {
		ki := g.r.intn(nkeys)
		ci := g.addConn("service", keys[ki].v19, keys[ki].phone)
		var frames []SentFrame
		a := &Actor{Name: p.Conns[ci].Label, Conn: ci}
		dial := Op{K: "dial"}
		// reconnects usually wait for the previous holder of the key to have done something
		if prev, ok := prevOfKey[ki]; ok && g.r.chance(60) {
			dial.After = &Dep{Actor: prev, N: 1 + g.r.intn(3)}
		}
		if kc := killedOfKey[ki]; kc > 0 {
			dial.After = nil
			dial.AfterClose = kc // reconnect on EOF
			delete(killedOfKey, ki)
		} else if g.r.chance(40) {
			dial.MinStep = g.r.intn(150)
		}
		a.Ops = append(a.Ops, dial)
		if g.r.chance(12) {
			// connects and leaves without ever sending a handled message
			if g.r.chance(50) {
				f := g.mkFrame(ci, 0x0705, g.randSerial(), g.body(5, 0)) // unsupported ID: no join
				frames = append(frames, f)
				a.Ops = append(a.Ops, Op{K: "send", Data: f.Raw, End: true, Frame: len(frames)})
			}
		} else {
			f := g.mkFrame(ci, 0x0002, g.randSerial(), nil)
			if g.r.chance(40) {
				f = g.mkFrame(ci, 0x0100, g.randSerial(), g.wellFormedBody(0x0100, keys[ki].v19, keys[ki].phone))
			} else if g.r.chance(15) {
				// the first message is packet 1 of a sub-packaged one whose rest may never come: the terminal is
				// connected and owns its key all the same
				f = g.mkSubFrame(ci, 0x0200, g.randSerial(), uint16(2+g.r.intn(3)), 1, g.body(20, 0))
			}
			frames = append(frames, f)
			a.Ops = append(a.Ops, Op{K: "send", Data: f.Raw, End: true, Frame: len(frames)})
			for n := g.r.intn(3); n > 0; n-- {
				h := g.mkFrame(ci, 0x0002, g.randSerial(), nil)
				if g.r.chance(35) {
					h = g.mkFrame(ci, 0x0200, g.randSerial(), g.wellFormedBody(0x0200, keys[ki].v19, nil))
				}
				frames = append(frames, h)
				a.Ops = append(a.Ops, Op{K: "send", Data: h.Raw, End: true, Frame: len(frames)})
			}
		}
		killed := false
		if len(frames) > 0 && isHandled(frames[0].ID) && g.r.chance(10) {
			// a corrupt frame (bad check code): the server drops the connection itself; a terminal that reconnects the
			// moment it sees the close must find its key free
			bad := g.mkFrame(ci, 0x0002, g.randSerial(), nil)
			raw := append([]byte(nil), bad.Raw...)
			raw[len(raw)-2] ^= 0x55
			if raw[len(raw)-2] == 0x7e || raw[len(raw)-2] == 0x7d {
				raw[len(raw)-2] ^= 0x03
			}
			a.Ops = append(a.Ops, Op{K: "send", Data: raw, End: true})
			killed = true
			killedOfKey[ki] = ci + 1
			p.Faults = append(p.Faults, "input.corrupt_frame_server_closes")
		}
		if !killed && g.r.chance(65) {
			op := Op{K: "fin"}
			if g.r.chance(35) {
				op.K = "rst"
			}
			if g.r.chance(50) {
				op.MinStep = 30 + g.r.intn(300)
			}
			a.Ops = append(a.Ops, op)
		}
		p.Expect.Frames[ci] = frames
		p.Actors = append(p.Actors, a)
		prevOfKey[ki] = a.Name
	}
	// callers
	ncall := 1 + g.r.intn(6)
	for k := 0; k < ncall; k++ {
		ki := g.r.intn(nkeys)
		keyStr := p.KeyOfDigits(ref.PhoneDigits(keys[ki].phone))
		if g.r.chance(10) {
			keyStr = "unknown-key"
		}
		ca := &Actor{Name: fmt.Sprintf("call%d", k), Conn: -1}
		ca.Ops = append(ca.Ops, Op{K: "call", MinStep: g.r.intn(400),
			Call: &CallSpec{Key: keyStr, Cmd: 0x8104, Body: []byte{0xCB, byte(k)}, Timeout: int64(time.Duration(100+g.r.intn(900)) * time.Millisecond)}})
		p.Actors = append(p.Actors, ca)
	}
	for ci := range p.Conns {
		p.Conns[ci].React = []Reaction{{Kind: []string{"ok", "never", "ok"}[g.r.intn(3)]}}
	}
	p.Sched = g.sched()
	p.MaxStep = 100000
	return p
}

// ---- porcupine model of the registry ----

type regIn struct {
	Op   string // join | leave | send
	Conn int
	Key  string
}
type regOut struct {
	OK    bool // join accepted
	Conn  int  // send: connection that received the command (-1: not-exist)
	NoKey bool
}

// state: "k1=c3,k2=c0" sorted by key
type regState map[string]int

func cloneState(s regState) regState {
	n := regState{}
	for k, v := range s {
		n[k] = v
	}
	return n
}

var regModel = porcupine.Model{
	Init: func() interface{} { return regState{} },
	Step: func(state, input, output interface{}) (bool, interface{}) {
		st := state.(regState)
		in := input.(regIn)
		out := output.(regOut)
		switch in.Op {
		case "join":
			_, taken := st[in.Key]
			if taken {
				return !out.OK, st // refusal leaves the map unchanged
			}
			if !out.OK {
				return false, st
			}
			n := cloneState(st)
			n[in.Key] = in.Conn
			return true, n
		case "leave":
			if owner, ok := st[in.Key]; ok && owner == in.Conn {
				n := cloneState(st)
				delete(n, in.Key)
				return true, n
			}
			return true, st // a connection that owns nothing frees nothing
		case "send":
			owner, ok := st[in.Key]
			if out.NoKey {
				return !ok, st
			}
			return ok && owner == out.Conn, st
		}
		return false, st
	},
	Equal: func(a, b interface{}) bool {
		x, y := a.(regState), b.(regState)
		if len(x) != len(y) {
			return false
		}
		for k, v := range x {
			if w, ok := y[k]; !ok || w != v {
				return false
			}
		}
		return true
	},
	DescribeOperation: func(input, output interface{}) string {
		return fmt.Sprintf("%+v -> %+v", input, output)
	},
}

func checkC11(r *Result) []Violation {
	var vs []Violation
	bad := func(rule, msg string, step int) {
		vs = append(vs, Violation{Prop: "C11", Rule: "C11." + rule, Sig: "C11." + rule, Msg: msg, Step: step})
	}
	nconn := len(r.Plan.Conns)
	keyOf := make([]string, nconn)
	for ci, c := range r.Plan.Conns {
		keyOf[ci] = r.Plan.KeyOfDigits(ref.PhoneDigits(c.Phone))
	}
	type connH struct {
		firstHandled int // step of the delivery that completed the first handled frame (0 none)
		joinEv       *Ev
		joins        int
		leaves       []Ev
		endCause     int // step of fin/rst (0 none)
		srvClose     int
		joinedOK     bool
	}
	hs := make([]*connH, nconn)
	for i := range hs {
		hs[i] = &connH{}
	}
	for ci := 0; ci < nconn; ci++ {
		frames := r.Plan.Expect.Frames[ci]
		firstIdx := -1
		for i, f := range frames {
			if isHandled(f.ID) && !(r.Plan.Svc.KeyMode == "tag-nohb" && f.ID == 0x0002) {
				firstIdx = i // the first handled message the key function has a key for
				break
			}
		}
		for i := range r.Hist {
			e := r.Hist[i]
			if e.C != ci {
				continue
			}
			switch e.K {
			case KDeliver:
				if firstIdx >= 0 && hs[ci].firstHandled == 0 && e.Ref >= firstIdx+1 {
					hs[ci].firstHandled = e.Step
				}
			case KJoin:
				if strings.Contains(e.Err, "key invalid") {
					if r.Plan.Svc.KeyMode != "tag-nohb" || e.ID != 0x0002 {
						bad("key_invalid_unexpected", fmt.Sprintf("conn %d: message id=%#04x was announced as having no key although the key function has one for it", ci, e.ID), e.Step)
						return vs
					}
					continue // neither a join nor a refusal: the connection tries again with its next message
				}
				hs[ci].joins++
				if hs[ci].joinEv == nil {
					ev := e
					hs[ci].joinEv = &ev
					hs[ci].joinedOK = e.Err == ""
				}
			case KLeave:
				hs[ci].leaves = append(hs[ci].leaves, e)
			case KFin, KRst:
				if hs[ci].endCause == 0 {
					hs[ci].endCause = e.Step
				}
			case KSrvClose:
				if hs[ci].srvClose == 0 {
					hs[ci].srvClose = e.Step
				}
			}
		}
	}
	// direct rules
	for ci, h := range hs {
		if h.joins > 1 {
			bad("join_announced_twice", fmt.Sprintf("conn %d: join callback ran %d times", ci, h.joins), h.joinEv.Step)
			return vs
		}
		if h.joinEv != nil && h.joinedOK && h.joinEv.Key != keyOf[ci] {
			bad("join_wrong_key", fmt.Sprintf("conn %d joined with key %q, its terminal key is %q", ci, h.joinEv.Key, keyOf[ci]), h.joinEv.Step)
			return vs
		}
		if len(h.leaves) > 1 {
			bad("leave_announced_twice", fmt.Sprintf("conn %d: leave callback ran %d times", ci, len(h.leaves)), h.leaves[1].Step)
			return vs
		}
		if h.joinedOK && len(h.leaves) == 1 && h.leaves[0].Key != h.joinEv.Key {
			bad("leave_wrong_key", fmt.Sprintf("conn %d joined as %q but left as %q", ci, h.joinEv.Key, h.leaves[0].Key), h.leaves[0].Step)
			return vs
		}
		if h.joinedOK && h.endCause != 0 && len(h.leaves) == 0 && r.Outcome == 0 {
			bad("leave_not_announced", fmt.Sprintf("conn %d joined as %q and its peer closed at step %d, but the leave callback never ran", ci, h.joinEv.Key, h.endCause), h.endCause)
			return vs
		}
		if h.firstHandled != 0 && h.joinEv == nil && r.Outcome == 0 {
			// the connection's first handled message (complete or a sub-package) was delivered and the run became
			// quiescent: the connection must have been announced - as joined or as refused. A reset may discard
			// unread data, so only connections that were not reset are judged.
			reset := false
			for _, e := range r.Hist {
				if e.C == ci && e.K == KRst {
					reset = true
				}
			}
			if !reset {
				bad("join_not_announced", fmt.Sprintf("conn %d (key %q): its first handled message was delivered at step %d, but the connection was never announced to the join callback", ci, keyOf[ci], h.firstHandled), h.firstHandled)
				return vs
			}
		}
		if h.joinEv != nil && !h.joinedOK && strings.Contains(h.joinEv.Err, "key exist") {
			// refused although every earlier owner of the key had already been closed by the server when this
			// connection was opened: to the terminal that connection had ended, so its key must be free
			dials := map[int]int{}
			for _, e := range r.Hist {
				if e.K == KDial {
					dials[e.C] = e.Step
				}
			}
			dial := dials[ci]
			stale := dial > 0
			owners := 0
			for cj, o := range hs {
				if cj == ci || keyOf[cj] != keyOf[ci] || dials[cj] == 0 || dials[cj] > h.joinEv.Step {
					continue // another key, or not opened before the refusal
				}
				// any other connection of this key that was open at some moment since this one was opened may be
				// the legitimate owner
				if o.srvClose == 0 || o.srvClose > dial {
					stale = false
				}
				if o.joinedOK {
					owners++
				}
			}
			if stale && owners > 0 {
				bad("key_not_free_after_close", fmt.Sprintf("conn %d (key %q) was opened at step %d, after the server had closed every earlier connection of that key, and was refused as a duplicate", ci, keyOf[ci], dial), h.joinEv.Step)
				return vs
			}
		}
		if h.joinEv != nil && !h.joinedOK && strings.Contains(h.joinEv.Err, "key exist") && h.srvClose == 0 && r.Outcome == 0 {
			bad("refused_not_closed", fmt.Sprintf("conn %d was refused (key %q online) but the server did not close it", ci, keyOf[ci]), h.joinEv.Step)
			return vs
		}
		if len(h.leaves) == 1 && h.joinedOK && h.leaves[0].Step < h.joinEv.Step {
			bad("leave_before_join", fmt.Sprintf("conn %d: leave announced before join", ci), h.leaves[0].Step)
			return vs
		}
	}
	// a send for a key that is not online returns the not-exist error at once
	calls := collectCalls(r)
	for _, c := range calls {
		if c.ret != nil && strings.Contains(c.ret.Err, "key not exist") && c.cmdN == 0 && !r.Plan.Sched.Jitter {
			if c.ret.T != c.call.T && !strings.Contains(c.ret.Err, "connection closed") {
				bad("not_exist_not_at_once", fmt.Sprintf("call %d for key %q returned not-exist after %s of simulated time", c.n, c.call.Key, time.Duration(c.ret.T-c.call.T)), c.ret.Step)
				return vs
			}
		}
	}
	// linearizability of join / leave / send against the registry model
	var ops []porcupine.Operation
	end := int64(r.Steps + 10)
	for ci, h := range hs {
		if h.joinEv != nil && h.firstHandled != 0 {
			ops = append(ops, porcupine.Operation{ClientId: ci, Input: regIn{"join", ci, keyOf[ci]}, Call: int64(h.firstHandled),
				Output: regOut{OK: h.joinedOK}, Return: int64(h.joinEv.Step)})
		}
		if h.joinedOK {
			switch {
			case len(h.leaves) == 1:
				inv := h.endCause
				if inv == 0 || inv > h.leaves[0].Step {
					inv = h.joinEv.Step // ended for a server-side reason: any time after the join
				}
				ops = append(ops, porcupine.Operation{ClientId: nconn + ci, Input: regIn{"leave", ci, keyOf[ci]}, Call: int64(inv),
					Output: regOut{}, Return: int64(h.leaves[0].Step)})
			case h.endCause != 0:
				// peer closed, leave still pending at the end of the run: it may or may not have taken effect
				ops = append(ops, porcupine.Operation{ClientId: nconn + ci, Input: regIn{"leave", ci, keyOf[ci]}, Call: int64(h.endCause),
					Output: regOut{}, Return: end})
			}
		}
	}
	for _, c := range calls {
		var out regOut
		switch {
		case c.cmdN > 0:
			out = regOut{Conn: c.cmdConn}
		case c.ret != nil && strings.Contains(c.ret.Err, "key not exist") && !strings.Contains(c.ret.Err, "connection closed"):
			out = regOut{Conn: -1, NoKey: true}
		default:
			continue // routed to a connection that went away before writing: no observation
		}
		ret := end
		if c.ret != nil {
			ret = int64(c.ret.Step)
		}
		if c.cmdEv != nil && int64(c.cmdEv.Step) < ret {
			ret = int64(c.cmdEv.Step) // the routing decision precedes the write
		}
		ops = append(ops, porcupine.Operation{ClientId: 2*nconn + c.n, Input: regIn{"send", -1, c.call.Key}, Call: int64(c.call.Step), Output: out, Return: ret})
	}
	if len(ops) > 40 {
		linStats["skipped_too_long"]++
		return vs
	}
	res := porcupine.CheckOperationsTimeout(regModel, ops, 30*time.Second)
	switch res {
	case porcupine.Ok:
		linStats["ok"]++
	case porcupine.Unknown:
		linStats["unknown"]++
	case porcupine.Illegal:
		linStats["illegal"]++
		var desc []string
		for _, o := range ops {
			desc = append(desc, fmt.Sprintf("[%d,%d] %s", o.Call, o.Return, regModel.DescribeOperation(o.Input, o.Output)))
		}
		bad("not_linearizable", "the history of joins, leaves and sends has no linearization against a key->connection map: "+strings.Join(desc, "; "), 0)
	}
	return vs
}

func init() {
	register(&propDef{ID: "C11", Gen: genC11, Check: withCrashRule("C11", checkC11),
		Interesting: func(r *Result) bool {
			// two connections contended for one key
			for _, e := range r.Hist {
				if e.K == KJoin && e.Err != "" {
					return true
				}
			}
			return false
		}})
}
