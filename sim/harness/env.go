package harness

import (
	"fmt"
	"time"

	"verifsim/ref"
	"verifsim/simnet"
	"verifsim/simrt"
)

// actorState is the run-time cursor of a plan actor.
type actorState struct {
	a      *Actor
	pc     int
	wakeAt time.Time // for a sleep op in progress
	asleep bool
}

// connState is the run-time state of a plan connection.
type connState struct {
	idx       int
	plan      *ConnPlan
	peer      *simnet.Peer
	midFrame  bool
	ncmd      int      // platform commands received so far (index into React)
	resp      []respOp // queued reactive responses
	respSeq   int
	tserial   uint16 // serial counter for frames the reactive terminal sends
	outBuf    []byte
	srvClosed bool // the server closed its end
}

type respOp struct {
	at    time.Time
	frame []byte
	note  string
}

// world is one run's environment: it implements simrt.Env.
type world struct {
	plan       *Plan
	actors     []*actorState
	byName     map[string]*actorState
	conns      []*connState
	hist       []Ev
	epoch      time.Time
	calls      int
	rets       int
	faults     map[string]int
	faultLog   []string
	parseCalls int
	svc        *svcHarness
	att        *attHarness
	retain     []*retained
	attEvs     []AttEv
	parseViol  []Violation
	stabViol   []Violation
	// rare-condition probes
	rare map[string]int
}

//go:norace
func (w *world) now() int64 { return int64(time.Since(w.epoch)) }

//go:norace
func (w *world) rec(e Ev) {
	simrt.RaceOff()
	e.Step = simrt.Step()
	e.T = w.now()
	w.hist = append(w.hist, e)
	simrt.RaceOn()
	simrt.EvLog("H", e.K, fmt.Sprint(e.C), fmt.Sprint(e.ID), fmt.Sprint(e.Ser), fmt.Sprint(e.N), e.Err, e.Key)
}

//go:norace
func (w *world) fault(kind string) { w.faultLog = append(w.faultLog, kind) }

//go:norace
func (w *world) enabled(as *actorState) (bool, string) {
	if as.pc >= len(as.a.Ops) {
		return false, ""
	}
	op := &as.a.Ops[as.pc]
	if op.MinStep > 0 && simrt.Step() < op.MinStep {
		return false, ""
	}
	if op.After != nil {
		dep := w.byName[op.After.Actor]
		if dep != nil && dep.pc < op.After.N {
			return false, ""
		}
	}
	if op.AfterClose > 0 && !w.conns[op.AfterClose-1].srvClosed {
		return false, ""
	}
	if as.a.Conn >= 0 {
		cs := w.conns[as.a.Conn]
		if op.K != "dial" && cs.peer == nil {
			return false, ""
		}
		if op.K == "dial" {
			addr := w.plan.Svc.Addr
			if cs.plan.Server == "attachment" {
				addr = w.plan.Att.Addr
			}
			if !simnet.Listening(addr) {
				return false, ""
			}
		}
	}
	if op.K == "sleep" {
		if !as.asleep {
			return true, "sleep"
		}
		if time.Now().Before(as.wakeAt) {
			return false, ""
		}
		return true, "wake"
	}
	return true, op.K
}

// Actions implements simrt.Env.
//
//go:norace
func (w *world) Actions(quiet bool) []simrt.Action {
	var out []simrt.Action
	for _, as := range w.actors {
		ok, what := w.enabled(as)
		if !ok {
			continue
		}
		op := &as.a.Ops[as.pc]
		if (op.Quiet || op.K == "quiet") && !quiet {
			continue
		}
		as := as
		out = append(out, simrt.Action{Name: as.a.Name, What: what, Do: func() { w.exec(as) }})
	}
	// reactive terminals: queued responses whose time has come, only at a frame boundary
	for _, cs := range w.conns {
		if len(cs.resp) == 0 || cs.peer == nil || cs.midFrame || cs.peer.Gone() {
			continue
		}
		if time.Now().Before(cs.resp[0].at) {
			continue
		}
		cs := cs
		out = append(out, simrt.Action{Name: fmt.Sprintf("%s.resp", cs.plan.Label), What: "respond", Do: func() { w.respond(cs) }})
	}
	return out
}

// NextDeadline implements simrt.Env.
//
//go:norace
func (w *world) NextDeadline() (time.Time, bool) {
	var best time.Time
	found := false
	now := time.Now()
	consider := func(t time.Time) {
		if t.After(now) && (!found || t.Before(best)) {
			best, found = t, true
		}
	}
	for _, as := range w.actors {
		if as.asleep {
			consider(as.wakeAt)
		}
	}
	for _, cs := range w.conns {
		if len(cs.resp) > 0 && cs.peer != nil && !cs.peer.Gone() {
			consider(cs.resp[0].at)
		}
	}
	return best, found
}

//go:norace
func (w *world) exec(as *actorState) {
	op := &as.a.Ops[as.pc]
	ci := as.a.Conn
	switch op.K {
	case "dial":
		cs := w.conns[ci]
		addr := w.plan.Svc.Addr
		if cs.plan.Server == "attachment" {
			addr = w.plan.Att.Addr
		}
		cs.peer = simnet.EnvDial(addr, cs.plan.Label)
		if cs.peer == nil {
			panic("harness: no listener at " + addr)
		}
		cs.peer.User = cs
		cs.peer.WriteErrAfterClose = cs.plan.WriteErrAfterClose
		w.rec(Ev{K: KDial, C: ci})
	case "send":
		cs := w.conns[ci]
		cs.peer.Deliver(op.Data)
		cs.midFrame = !op.End
		w.rec(Ev{K: KDeliver, C: ci, N: len(op.Data), Ref: op.Frame, Note: op.Note})
	case "fin":
		cs := w.conns[ci]
		cs.peer.Fin()
		w.fault("peer.fin")
		w.rec(Ev{K: KFin, C: ci})
	case "rst":
		cs := w.conns[ci]
		cs.peer.Rst()
		w.fault("peer.rst")
		w.rec(Ev{K: KRst, C: ci})
	case "failw":
		cs := w.conns[ci]
		cs.peer.FailWrites()
		w.fault("net.write_error")
		w.rec(Ev{K: KFailW, C: ci})
	case "sleep":
		if !as.asleep {
			as.asleep = true
			as.wakeAt = time.Now().Add(time.Duration(op.D))
			if op.D > 0 {
				return // stay on this op until the clock has passed wakeAt
			}
		}
		as.asleep = false
		w.fault("clock.idle_advance")
	case "quiet":
		w.rec(Ev{K: KQuiet, C: ci})
	case "mark":
		w.rec(Ev{K: KMark, C: ci, Note: op.Note})
	case "call":
		w.startCall(as.a.Name, op.Call)
	default:
		panic("harness: unknown op " + op.K)
	}
	as.pc++
}

// respond sends the next queued reactive response of a connection.
//
//go:norace
func (w *world) respond(cs *connState) {
	r := cs.resp[0]
	cs.resp = cs.resp[1:]
	cs.peer.Deliver(r.frame)
	w.rec(Ev{K: KDeliver, C: cs.idx, N: len(r.frame), Note: "resp:" + r.note, Raw: r.frame})
}

// onServerWrite is installed as simnet.OnServerWrite: it records the frame and lets the reactive terminal
// model queue its answer to a platform command.
//
//go:norace
func (w *world) onServerWrite(p *simnet.Peer, b []byte, err error) {
	cs, _ := p.User.(*connState)
	if cs == nil {
		return
	}
	if err != nil {
		w.rec(Ev{K: KSrvWrite, C: cs.idx, Err: err.Error(), G: simrt.CurName()})
		return
	}
	w.rec(Ev{K: KSrvWrite, C: cs.idx, Raw: append([]byte(nil), b...), G: simrt.CurName()})
	if len(cs.plan.React) == 0 {
		return
	}
	simrt.RaceOff()
	defer simrt.RaceOn()
	f, derr := ref.Decode(b)
	if derr != nil || !isPlatformCommand(f.ID) {
		return
	}
	k := cs.ncmd
	cs.ncmd++
	re := Reaction{Kind: "never"}
	if k < len(cs.plan.React) {
		re = cs.plan.React[k]
	} else if len(cs.plan.React) > 0 {
		re = cs.plan.React[len(cs.plan.React)-1]
	}
	rid, body := responseFor(f.ID, f.Serial, re.Var)
	if rid == 0 {
		return
	}
	mk := func(serial uint16, b []byte) []byte {
		cs.tserial++
		fr := ref.Frame{ID: rid, Ver19: cs.plan.Ver19, VerByte: 1, Phone: cs.plan.Phone, Serial: 0x7000 + cs.tserial, Body: b}
		return fr.Encode()
	}
	at := time.Now().Add(time.Duration(re.Delay))
	if (re.Kind == "ok" || re.Kind == "late") && re.Sub >= 2 && len(body) >= 2*re.Sub {
		// the answer is long enough for the terminal to send it as sub-packages (all at once, in order)
		cs.tserial++
		first := 0x7000 + cs.tserial
		per := len(body) / re.Sub
		for i := 0; i < re.Sub; i++ {
			piece := body[i*per : (i+1)*per]
			if i == re.Sub-1 {
				piece = body[i*per:]
			}
			fr := ref.Frame{ID: rid, Ver19: cs.plan.Ver19, VerByte: 1, Phone: cs.plan.Phone, Serial: first + uint16(i), Body: piece, Sub: true, Total: uint16(re.Sub), No: uint16(i + 1)}
			cs.resp = append(cs.resp, respOp{at: at, frame: fr.Encode(), note: re.Kind})
		}
		cs.tserial += uint16(re.Sub)
		w.fault("resp.sub_packaged")
		if re.Kind == "late" {
			w.fault("resp.late")
		}
		return
	}
	switch re.Kind {
	case "ok", "late":
		cs.resp = append(cs.resp, respOp{at: at, frame: mk(f.Serial, body), note: re.Kind})
		if re.Kind == "late" {
			w.fault("resp.late")
		}
	case "dup":
		cs.resp = append(cs.resp, respOp{at: at, frame: mk(f.Serial, body), note: "dup1"}, respOp{at: at, frame: mk(f.Serial, body), note: "dup2"})
		w.fault("resp.dup")
	case "unknown":
		_, wb := responseFor(f.ID, f.Serial+0x4000, re.Var)
		cs.resp = append(cs.resp, respOp{at: at, frame: mk(f.Serial, wb), note: "unknown"})
		w.fault("resp.unknown_serial")
	case "unknown_then_ok":
		_, wb := responseFor(f.ID, f.Serial+0x4000, re.Var)
		cs.resp = append(cs.resp, respOp{at: at, frame: mk(f.Serial, wb), note: "unknown"}, respOp{at: at, frame: mk(f.Serial, body), note: "ok"})
		w.fault("resp.unknown_serial")
	default:
		w.fault("resp.never")
	}
}

//go:norace
func (w *world) onServerClose(p *simnet.Peer) {
	if cs, _ := p.User.(*connState); cs != nil {
		cs.srvClosed = true
		w.rec(Ev{K: KSrvClose, C: cs.idx, G: simrt.CurName()})
	}
}

//go:norace
func (w *world) onServerRead(p *simnet.Peer, n int, err error) {
	if cs, _ := p.User.(*connState); cs != nil {
		e := Ev{K: KSrvRead, C: cs.idx, N: n}
		if err != nil {
			e.Err = err.Error()
		}
		w.rec(e)
	}
}

// isPlatformCommand: platform-originated IDs that are commands (expect a terminal response), as opposed to
// the automatic replies 0x8001, 0x8100, 0x8800, 0x9212 and the re-request 0x8003.
//
//go:norace
func isPlatformCommand(id uint16) bool {
	switch id {
	case 0x8001, 0x8100, 0x8800, 0x9212, 0x8003:
		return false
	}
	return id&0x8000 != 0
}

// responseFor gives the terminal's response type and body for a platform command (from the standard's
// command/response pairing): the body starts with the command's serial number.
//
//go:norace
func responseFor(cmd, serial uint16, variant int) (uint16, []byte) {
	s := []byte{byte(serial >> 8), byte(serial)}
	var r *rng
	if variant > 0 {
		r = newRng(uint64(variant)*0x9e3779b97f4a7c15 + uint64(cmd))
	}
	switch cmd {
	case 0x8104, 0x8106:
		if r == nil {
			return 0x0104, append(s, 0) // serial, parameter count 0
		}
		// a parameter list: DWORD, WORD and string parameters; a string parameter may be empty (length 0), also as
		// the last item, whose id and length byte then end exactly at the end of the body
		n := 1 + r.intn(4)
		b := append(s, byte(n))
		for i := 0; i < n; i++ {
			switch r.intn(3) {
			case 0:
				b = append(b, 0, 0, 0, byte(r.pick(0x01, 0x02, 0x20, 0x55)), 4)
				b = append(b, r.bytes(4)...)
			case 1:
				b = append(b, 0, 0, 0, byte(r.pick(0x31, 0x81)), 2)
				b = append(b, r.bytes(2)...)
			default:
				ln := r.pick(0, 0, 1, 7)
				b = append(b, 0, 0, 0, byte(r.pick(0x10, 0x13, 0x83)), byte(ln))
				b = append(b, []byte("ABC1234")[:ln]...)
			}
		}
		return 0x0104, b
	case 0x8801:
		if r == nil {
			return 0x0805, append(s, 0, 0, 0) // serial, result 0, id count 0
		}
		n := r.intn(4)
		b := append(s, byte(r.intn(3)), 0, byte(n))
		return 0x0805, append(b, r.bytes(4*n)...)
	case 0x9205:
		return 0x1205, append(s, 0, 0, 0, 0) // serial, resource count 0
	case 0x9206:
		return 0x1206, append(s, 0) // serial, result
	case 0x9003:
		return 0x1003, []byte{0, 1, 0, 1, 0, 0x40, 1, 0x62, 2, 2}
	default: // 0x8103, 0x9101, 0x9102, 0x9105, 0x9201, 0x9202, 0x9207, 0x9208 ...: general response
		if r != nil && r.chance(25) {
			// some terminals fill the "answered id" field carelessly (0, or the previous command's id): the response
			// still echoes the command's serial number, which is what it is matched by
			id := uint16(r.pick(0, 0x8103, 0x9101, 0x8f00))
			return 0x0001, append(s, byte(id>>8), byte(id), byte(r.intn(4)))
		}
		return 0x0001, append(s, byte(cmd>>8), byte(cmd), 0)
	}
}
