//go:build !race

package simrt

func raceOff() {}
func raceOn()  {}

// RaceMode is true in a -race build.
const RaceMode = false
