//go:build race

package simrt

import "runtime"

func raceOff() { runtime.RaceDisable() }
func raceOn()  { runtime.RaceEnable() }

// RaceMode is true in a -race build.
const RaceMode = true
