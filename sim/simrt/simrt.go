// Package simrt is the seeded token scheduler of the deterministic simulator.
//
// Exactly one goroutine at a time executes application code (it "holds the token"). All other
// goroutines are parked at a yield point (blocked on their private resume channel), blocked in a real
// channel operation / shim call, or asleep on the synctest bubble's fake clock. The scheduler runs in the
// bubble's root goroutine: it waits for quiescence (synctest.Wait), collects the runnable set in a stable
// order, asks the Chooser which one proceeds, and releases it. Every decision is logged.
//
// All functions here are //go:norace and bracket their own synchronisation with raceOff/raceOn so that in a
// -race build the detector sees only the application's own happens-before relation (DESIGN.md §3.8).
package simrt

import (
	"fmt"
	"hash/fnv"
	"runtime"
	"strconv"
	"strings"
	"sync"
	"sync/atomic"
	"testing/synctest"
	"time"
)

type state int32

const (
	running state = iota
	parked
	done
)

// G is one registered goroutine.
type G struct {
	idx      int
	Name     string
	Role     string
	resume   chan struct{}
	st       state
	site     string
	sleeping bool
	nchild   int
}

// Cand is one schedulable thing offered to the Chooser.
type Cand struct {
	Name  string // stable name (goroutine) or "E:<actor>" (environment action)
	Site  string // where the goroutine is parked / what the action is
	Role  string // spawn site of the goroutine ("" for env actions)
	IsEnv bool
}

// Chooser decides every nondeterministic choice of a run.
type Chooser interface {
	Pick(step int, cands []Cand) int
	Perm(site string, n int) []int
}

// Action is an enabled environment action.
type Action struct {
	Name string
	What string
	Do   func()
}

// Env supplies the environment's enabled actions and its next timed wake-up.
type Env interface {
	Actions(quiet bool) []Action
	NextDeadline() (time.Time, bool)
}

// Crash is a panic captured in an application goroutine.
type Crash struct {
	Step   int
	G      string
	Role   string
	Value  string
	Frames []string // innermost first, function names only
}

const tabSize = 1 << 14

var (
	// Enabled switches the runtime from pass-through to simulation.
	Enabled bool
	// AllowClockJitter offers "E:clock" (advance to the next pending sleep deadline although work is runnable).
	AllowClockJitter bool
	// Trace keeps the full event log (otherwise only its hash).
	Trace bool

	keys [tabSize]atomic.Uint64
	vals [tabSize]atomic.Pointer[G]

	all      []*G
	chooser  Chooser
	steps    int
	logHash  uint64
	logN     int
	Log      []string
	Crashes  []Crash
	Progress atomic.Int64 // bumped on every scheduler step; read by the real-time watchdog

	parkNotify chan struct{}
	// LastActive is the simulated time of the last scheduler decision.
	LastActive time.Time
	nSleeping  int
	anon       int

	onces []*onceSt

	probes    []uint32
	probeLock sync.Mutex
)

type onceSt struct {
	o             *sync.Once
	running, done bool
}

//go:norace
func goid() uint64 {
	var buf [40]byte
	n := runtime.Stack(buf[:], false)
	var id uint64
	for _, c := range buf[len("goroutine "):n] {
		if c < '0' || c > '9' {
			break
		}
		id = id*10 + uint64(c-'0')
	}
	return id
}

//go:norace
func bind(id uint64, g *G) {
	for i := id % tabSize; ; i = (i + 1) % tabSize {
		if keys[i].CompareAndSwap(0, id) {
			vals[i].Store(g)
			return
		}
	}
}

//go:norace
func lookup() *G {
	id := goid()
	for i, n := id%tabSize, 0; n < tabSize; i, n = (i+1)%tabSize, n+1 {
		k := keys[i].Load()
		if k == id {
			for {
				if g := vals[i].Load(); g != nil {
					return g
				}
			}
		}
		if k == 0 {
			return nil
		}
	}
	return nil
}

//go:norace
func cur() *G {
	if g := lookup(); g != nil {
		return g
	}
	// A goroutine the rewriter did not see (time.AfterFunc, a library). Adopt it.
	anon++
	g := &G{idx: len(all), Name: "anon#" + strconv.Itoa(anon), Role: "anon", resume: make(chan struct{}), st: running}
	all = append(all, g)
	bind(goid(), g)
	return g
}

// Reset prepares a new run. Must be called by the bubble's root goroutine.
//
//go:norace
func Reset(c Chooser) {
	raceOff()
	defer raceOn()
	for i := range keys {
		if keys[i].Load() != 0 {
			keys[i].Store(0)
			vals[i].Store(nil)
		}
	}
	all = nil
	chooser = c
	steps = 0
	logHash = 1469598103934665603
	logN = 0
	Log = nil
	Crashes = nil
	nSleeping = 0
	anon = 0
	onces = nil
	parkNotify = make(chan struct{}, 1) // created inside the bubble so that blocking on it is durable
	g := &G{idx: 0, Name: "main", Role: "main", resume: make(chan struct{}), st: running}
	bind(goid(), g)
	all = append(all, g)
}

// Step returns the global event sequence number (number of scheduler decisions so far).
//
//go:norace
func Step() int { return steps }

// CurName returns the stable name of the calling goroutine.
//
//go:norace
func CurName() string {
	if !Enabled {
		return ""
	}
	raceOff()
	defer raceOn()
	return cur().Name
}

// EvLog appends one line to the run's event log (hash always, text when Trace).
//
//go:norace
func EvLog(parts ...string) {
	raceOff()
	defer raceOn()
	evlog(parts...)
}

//go:norace
func evlog(parts ...string) {
	h := logHash
	for _, p := range parts {
		for i := 0; i < len(p); i++ {
			h ^= uint64(p[i])
			h *= 1099511628211
		}
		h ^= 0xff
		h *= 1099511628211
	}
	logHash = h
	logN++
	if Trace {
		Log = append(Log, strconv.Itoa(steps)+" "+strings.Join(parts, " "))
	}
}

// LogHash returns the hash of the event log so far.
//
//go:norace
func LogHash() uint64 { return logHash }

// Go starts fn as a named, scheduled goroutine. site identifies the go statement.
//
//go:norace
func Go(site string, fn func()) {
	if !Enabled {
		go fn()
		return
	}
	raceOff()
	p := cur()
	p.nchild++
	name := p.Name + ">" + site + "#" + strconv.Itoa(p.nchild)
	raceOn()
	goNamed(name, site, fn)
}

// GoNamed starts fn under an explicit stable name (used by the environment for caller goroutines).
//
//go:norace
func GoNamed(name, role string, fn func()) {
	if !Enabled {
		go fn()
		return
	}
	goNamed(name, role, fn)
}

//go:norace
func goNamed(name, role string, fn func()) {
	raceOff()
	g := &G{idx: len(all), Name: name, Role: role, resume: make(chan struct{}), st: parked, site: "start"}
	all = append(all, g)
	started := make(chan struct{})
	raceOn()
	// the go statement itself stays visible to the race detector: parent happens-before child
	go child(g, started, fn)
	raceOff()
	<-started
	raceOn()
}

//go:norace
func child(g *G, started chan struct{}, fn func()) {
	raceOff()
	bind(goid(), g)
	close(started)
	<-g.resume
	raceOn()
	defer fin(g)
	fn()
}

//go:norace
func fin(g *G) {
	r := recover()
	raceOff()
	if r != nil {
		c := Crash{Step: steps, G: g.Name, Role: g.Role, Value: fmt.Sprint(r), Frames: appFrames()}
		Crashes = append(Crashes, c)
		evlog("CRASH", g.Name, c.Value)
	}
	g.st = done
	raceOn()
}

// appFrames returns the function names on the current (panicking) stack, innermost first, skipping the
// runtime and simrt itself.
//
//go:norace
func appFrames() []string {
	pc := make([]uintptr, 64)
	n := runtime.Callers(3, pc)
	fr := runtime.CallersFrames(pc[:n])
	var out []string
	for {
		f, more := fr.Next()
		fn := f.Function
		if fn != "" && !strings.HasPrefix(fn, "runtime.") && !strings.Contains(fn, "verifsim/simrt.") {
			out = append(out, fn)
		}
		if !more || len(out) >= 12 {
			break
		}
	}
	return out
}

// Yield parks the calling goroutine until the scheduler releases it.
//
//go:norace
func Yield(site string) {
	if !Enabled {
		return
	}
	raceOff()
	g := cur()
	g.site = site
	g.st = parked
	select {
	case parkNotify <- struct{}{}:
	default:
	}
	<-g.resume
	raceOn()
}

// Sleep replaces time.Sleep: a yield, a sleep on the bubble's fake clock, a yield.
//
//go:norace
func Sleep(site string, d time.Duration) {
	if !Enabled {
		time.Sleep(d)
		return
	}
	Yield(site + ":pre")
	raceOff()
	g := cur()
	g.sleeping = true
	nSleeping++
	time.Sleep(d)
	g.sleeping = false
	nSleeping--
	raceOn()
	Yield(site + ":post")
}

// Order returns the order in which a rewritten select tries its cases.
//
//go:norace
func Order(site string, n int) []int {
	if !Enabled || n <= 1 {
		p := make([]int, n)
		for i := range p {
			p[i] = i
		}
		return p
	}
	raceOff()
	defer raceOn()
	p := chooser.Perm(site, n)
	return p
}

// Zero declares typed holders for a rewritten select.
func Zero[T any](ch <-chan T) (v T, ok bool) { return }

// Recv performs the application's receive between two yields.
func Recv[T any](site string, ch <-chan T) T {
	Yield(site + ":pre")
	v := <-ch
	Yield(site + ":post")
	return v
}

// Recv2 is Recv for the two-value form.
func Recv2[T any](site string, ch <-chan T) (T, bool) {
	Yield(site + ":pre")
	v, ok := <-ch
	Yield(site + ":post")
	return v, ok
}

// OnceDo emulates (*sync.Once).Do without the mutex a second caller would block on non-durably.
//
//go:norace
func OnceDo(o *sync.Once, site string, f func()) {
	if !Enabled {
		o.Do(f)
		return
	}
	Yield(site + ":pre")
	raceOff()
	var st *onceSt
	for _, x := range onces {
		if x.o == o {
			st = x
		}
	}
	if st == nil {
		st = &onceSt{o: o}
		onces = append(onces, st)
	}
	if st.done || st.running {
		for !st.done {
			raceOn()
			Yield(site + ":wait")
			raceOff()
		}
		raceOn()
		o.Do(func() {}) // acquire: completion of f happens-before this return
		return
	}
	st.running = true
	raceOn()
	defer onceFin(o, st)
	f()
}

//go:norace
func onceFin(o *sync.Once, st *onceSt) {
	raceOff()
	st.done = true
	raceOn()
	o.Do(func() {}) // release
}

// LockLoop acquires a mutex-like lock by polling try at yield points.
//
//go:norace
func LockLoop(site string, try func() bool) {
	if !Enabled {
		for !try() {
			runtime.Gosched()
		}
		return
	}
	Yield(site + ":pre")
	for !try() {
		Yield(site + ":wait")
	}
}

// MapOrder returns a permutation for iterating n map keys.
//
//go:norace
func MapOrder(site string, n int) []int {
	return Order(site, n)
}

// Outcome of RunSched.
type Outcome int

const (
	Quiescent Outcome = iota
	StepCap
)

// Horizon is how much simulated time may pass with nothing runnable before the run counts as quiescent.
var Horizon = 3 * time.Hour

// RunSched drives the run until quiescence or the step cap.
//
//go:norace
func RunSched(env Env, maxSteps int) Outcome {
	raceOff()
	defer raceOn()
	var cands []Cand
	var gs []*G
	for steps < maxSteps {
		synctest.Wait()
		cands = cands[:0]
		gs = gs[:0]
		for _, g := range all {
			if g.st == parked {
				gs = append(gs, g)
				cands = append(cands, Cand{Name: g.Name, Site: g.site, Role: g.Role})
			}
		}
		ng := len(gs)
		raceOn()
		acts := env.Actions(ng == 0)
		raceOff()
		for _, a := range acts {
			cands = append(cands, Cand{Name: "E:" + a.Name, Site: a.What, IsEnv: true})
		}
		clockIdx := -1
		if AllowClockJitter && nSleeping > 0 && len(cands) > 0 {
			clockIdx = len(cands)
			cands = append(cands, Cand{Name: "E:clock", Site: "jitter", IsEnv: true})
		}
		if len(cands) == 0 {
			// nothing runnable: let simulated time pass until a goroutine parks or the env has something to do
			wait := Horizon
			if dl, ok := env.NextDeadline(); ok {
				if d := time.Until(dl); d < wait {
					wait = d
				}
			}
			if wait < 0 {
				wait = 0
			}
			select {
			case <-parkNotify:
			default:
			}
			t0 := time.Now()
			tm := time.NewTimer(wait)
			select {
			case <-parkNotify:
				tm.Stop()
			case <-tm.C:
				if wait == Horizon {
					return Quiescent
				}
			}
			evlog("advance", time.Since(t0).String())
			continue
		}
		LastActive = time.Now()
		k := chooser.Pick(steps, cands)
		if k < 0 || k >= len(cands) {
			panic(fmt.Sprintf("simrt: chooser returned %d of %d", k, len(cands)))
		}
		steps++
		Progress.Add(1)
		switch {
		case k < ng:
			g := gs[k]
			g.st = running
			evlog("run", g.Name, g.site)
			g.resume <- struct{}{}
		case k == clockIdx:
			// advance the fake clock to the next pending sleep deadline while work is runnable
			select {
			case <-parkNotify:
			default:
			}
			t0 := time.Now()
			tm := time.NewTimer(Horizon)
			select {
			case <-parkNotify:
				tm.Stop()
			case <-tm.C:
			}
			evlog("jitter", time.Since(t0).String())
		default:
			a := acts[k-ng]
			evlog("act", a.Name, a.What)
			raceOn()
			a.Do()
			raceOff()
		}
	}
	return StepCap
}

// Pending reports the goroutines that are neither finished nor parked (blocked in an operation), and the
// parked ones, by name. Used by end-of-run oracles (stranded callers).
//
//go:norace
func Pending() (blocked, parkedNames []string) {
	for _, g := range all {
		switch g.st {
		case running:
			if g.idx != 0 {
				blocked = append(blocked, g.Name)
			}
		case parked:
			parkedNames = append(parkedNames, g.Name)
		}
	}
	return
}

// Probe counts a hit of basic block id.
//
//go:norace
func Probe(id int) {
	if id < len(probes) {
		probes[id]++
	}
}

// InitProbes sizes the probe table.
func InitProbes(n int) { probes = make([]uint32, n) }

// Probes returns the probe counters.
func Probes() []uint32 { return probes }

// Hash64 is a helper for deriving seeds.
func Hash64(parts ...string) uint64 {
	h := fnv.New64a()
	for _, p := range parts {
		h.Write([]byte(p))
		h.Write([]byte{0})
	}
	return h.Sum64()
}

func RaceOff() { raceOff() }
func RaceOn()  { raceOn() }
