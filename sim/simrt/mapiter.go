package simrt

import (
	"cmp"
	"fmt"
	"iter"
	"slices"
	"sort"
)

// MapIter replaces `range m` over a map: the keys are snapshotted, ordered canonically and then permuted by
// a scheduler draw, so that iteration order is an explored, recorded, replayable choice. Like the built-in
// statement it yields only keys that are still present when their turn comes.
func MapIter[M ~map[K]V, K cmp.Ordered, V any](site string, m M) iter.Seq2[K, V] {
	return func(yield func(K, V) bool) {
		keys := make([]K, 0, len(m))
		for k := range m {
			keys = append(keys, k)
		}
		slices.Sort(keys)
		iterate(site, m, keys, yield)
	}
}

// MapIterAny is MapIter for key types without a natural order (ordered by their printed form).
func MapIterAny[M ~map[K]V, K comparable, V any](site string, m M) iter.Seq2[K, V] {
	return func(yield func(K, V) bool) {
		keys := make([]K, 0, len(m))
		for k := range m {
			keys = append(keys, k)
		}
		sort.Slice(keys, func(i, j int) bool { return fmt.Sprint(keys[i]) < fmt.Sprint(keys[j]) })
		iterate(site, m, keys, yield)
	}
}

func iterate[M ~map[K]V, K comparable, V any](site string, m M, keys []K, yield func(K, V) bool) {
	var order []int
	if Enabled && len(keys) > 1 {
		order = MapOrder(site, len(keys))
	}
	for i := range keys {
		k := keys[i]
		if order != nil {
			k = keys[order[i]]
		}
		v, ok := m[k]
		if !ok {
			continue
		}
		if !yield(k, v) {
			return
		}
	}
}

// MapKeys / MapValues replace maps.Keys / maps.Values.
func MapKeys[M ~map[K]V, K cmp.Ordered, V any](site string, m M) iter.Seq[K] {
	return func(yield func(K) bool) {
		for k := range MapIter(site, m) {
			if !yield(k) {
				return
			}
		}
	}
}

func MapValues[M ~map[K]V, K cmp.Ordered, V any](site string, m M) iter.Seq[V] {
	return func(yield func(V) bool) {
		for _, v := range MapIter(site, m) {
			if !yield(v) {
				return
			}
		}
	}
}
