// verif-instr: rewrites a package of /repo (service, attachment) into a copy whose every source of
// nondeterminism goes through the simulator's seams (DESIGN.md §3.1).
//
//	verif-instr -src /repo/service -dst <tmp>/service [-os] -probebase N -meta <tmp>/service.json
//
// Nothing is written into /repo. The copy is presented to the compiler with `go build -overlay`.
package main

import (
	"bytes"
	"encoding/json"
	"flag"
	"fmt"
	"go/ast"
	"go/format"
	"go/importer"
	"go/parser"
	"go/token"
	"go/types"
	"os"
	"path/filepath"
	"sort"
	"strconv"
	"strings"

	"golang.org/x/tools/go/ast/astutil"
)

var (
	fset     = token.NewFileSet()
	nsite    int
	info     *types.Info
	probes   []ProbeInfo
	probeOn  = true
	curFunc  string
	stats    = map[string]int{}
	rawSel   []string
	needTime = map[*ast.File]bool{}
)

type ProbeInfo struct {
	ID   int    `json:"id"`
	File string `json:"file"`
	Line int    `json:"line"`
	Func string `json:"func"`
	Kind string `json:"kind"`
}

type Meta struct {
	Package            string         `json:"package"`
	Sites              int            `json:"sites"`
	Stats              map[string]int `json:"stats"`
	Probes             []ProbeInfo    `json:"probes"`
	UncontrolledSelect []string       `json:"uncontrolled_select"`
	TypeErrors         []string       `json:"type_errors"`
}

var probeBase int

func pos(n ast.Node) token.Position { return fset.Position(n.Pos()) }

func siteStr(n ast.Node, kind string) string {
	p := pos(n)
	return fmt.Sprintf("%s:%d:%s", filepath.Base(p.Filename), p.Line, kind)
}

func siteLit(n ast.Node, kind string) ast.Expr {
	nsite++
	return &ast.BasicLit{Kind: token.STRING, Value: strconv.Quote(siteStr(n, kind))}
}

func call(fn string, args ...ast.Expr) *ast.CallExpr {
	return &ast.CallExpr{Fun: &ast.SelectorExpr{X: ast.NewIdent("simrt"), Sel: ast.NewIdent(fn)}, Args: args}
}

func yieldStmt(n ast.Node, kind string) ast.Stmt {
	stats["yield"]++
	return &ast.ExprStmt{X: call("Yield", siteLit(n, kind))}
}

func intLit(i int) ast.Expr { return &ast.BasicLit{Kind: token.INT, Value: strconv.Itoa(i)} }

func probeStmt(n ast.Node, kind string) ast.Stmt {
	p := pos(n)
	id := probeBase + len(probes)
	probes = append(probes, ProbeInfo{ID: id, File: filepath.Base(p.Filename), Line: p.Line, Func: curFunc, Kind: kind})
	return &ast.ExprStmt{X: call("Probe", intLit(id))}
}

func typeOf(e ast.Expr) types.Type {
	if info == nil {
		return nil
	}
	if tv, ok := info.Types[e]; ok {
		return tv.Type
	}
	return nil
}

func isMap(e ast.Expr) (bool, bool) { // (isMap, keyOrdered)
	t := typeOf(e)
	if t == nil {
		return false, false
	}
	m, ok := t.Underlying().(*types.Map)
	if !ok {
		return false, false
	}
	if b, ok := m.Key().Underlying().(*types.Basic); ok && b.Info()&types.IsOrdered != 0 {
		return true, true
	}
	return true, false
}

func isChan(e ast.Expr) bool {
	t := typeOf(e)
	if t == nil {
		return false
	}
	_, ok := t.Underlying().(*types.Chan)
	return ok
}

// methodOf reports the fully qualified method a call expression invokes ("(*sync.Once).Do").
func methodOf(c *ast.CallExpr) string {
	se, ok := c.Fun.(*ast.SelectorExpr)
	if !ok || info == nil {
		return ""
	}
	if sel, ok := info.Selections[se]; ok {
		if f, ok := sel.Obj().(*types.Func); ok {
			return f.FullName()
		}
	}
	return ""
}

// pkgFunc reports "pkgpath.Name" for a qualified call like time.Sleep.
func pkgFunc(c *ast.CallExpr) string {
	se, ok := c.Fun.(*ast.SelectorExpr)
	if !ok {
		return ""
	}
	id, ok := se.X.(*ast.Ident)
	if !ok {
		return ""
	}
	if info != nil {
		if pn, ok := info.Uses[id].(*types.PkgName); ok {
			return pn.Imported().Path() + "." + se.Sel.Name
		}
		return ""
	}
	return id.Name + "." + se.Sel.Name
}

func isBuiltin(c *ast.CallExpr, name string) bool {
	id, ok := c.Fun.(*ast.Ident)
	if !ok || id.Name != name {
		return false
	}
	if info != nil {
		_, isB := info.Uses[id].(*types.Builtin)
		return isB
	}
	return true
}

// ---- expression-level rewrites (receives, maps.Keys, time.Sleep inside expressions are left alone) ----

func replaceInExpr(n ast.Node) ast.Node {
	if n == nil {
		return nil
	}
	return astutil.Apply(n, func(c *astutil.Cursor) bool {
		switch x := c.Node().(type) {
		case *ast.FuncLit:
			return false
		case *ast.AssignStmt:
			if len(x.Lhs) == 2 && len(x.Rhs) == 1 {
				if u, ok := x.Rhs[0].(*ast.UnaryExpr); ok && u.Op == token.ARROW {
					stats["recv"]++
					x.Rhs[0] = call("Recv2", siteLit(u, "recv"), u.X)
					return false
				}
			}
		case *ast.ValueSpec:
			if len(x.Names) == 2 && len(x.Values) == 1 {
				if u, ok := x.Values[0].(*ast.UnaryExpr); ok && u.Op == token.ARROW {
					stats["recv"]++
					x.Values[0] = call("Recv2", siteLit(u, "recv"), u.X)
					return false
				}
			}
		case *ast.UnaryExpr:
			if x.Op == token.ARROW {
				stats["recv"]++
				c.Replace(call("Recv", siteLit(x, "recv"), x.X))
				return false
			}
		case *ast.CallExpr:
			switch pkgFunc(x) {
			case "maps.Keys":
				if ok, ord := isMap(x.Args[0]); ok && ord {
					stats["mapkeys"]++
					c.Replace(call("MapKeys", siteLit(x, "mapkeys"), x.Args[0]))
					return false
				}
			case "maps.Values":
				if ok, ord := isMap(x.Args[0]); ok && ord {
					stats["mapkeys"]++
					c.Replace(call("MapValues", siteLit(x, "mapvalues"), x.Args[0]))
					return false
				}
			case "maps.All":
				if ok, ord := isMap(x.Args[0]); ok && ord {
					stats["mapkeys"]++
					c.Replace(call("MapIter", siteLit(x, "mapall"), x.Args[0]))
					return false
				}
			}
		}
		return true
	}, nil)
}

func rewriteFuncLits(n ast.Node) {
	if n == nil {
		return
	}
	ast.Inspect(n, func(x ast.Node) bool {
		if fl, ok := x.(*ast.FuncLit); ok {
			saved := curFunc
			curFunc = saved + ".func"
			rewriteBody(fl.Body, fl, "func")
			curFunc = saved
			return false
		}
		return true
	})
}

func rewriteBody(b *ast.BlockStmt, at ast.Node, kind string) {
	if b == nil {
		return
	}
	b.List = rewriteList(b.List)
	if probeOn {
		b.List = append([]ast.Stmt{probeStmt(at, kind)}, b.List...)
	}
}

func rewriteList(list []ast.Stmt) []ast.Stmt {
	var out []ast.Stmt
	for _, s := range list {
		out = append(out, rewriteStmt(s)...)
	}
	return out
}

func exprOf(n ast.Node) ast.Expr {
	if n == nil {
		return nil
	}
	return n.(ast.Expr)
}

func rewriteStmt(s ast.Stmt) []ast.Stmt {
	switch st := s.(type) {
	case nil:
		return nil
	case *ast.BlockStmt:
		st.List = rewriteList(st.List)
		return []ast.Stmt{st}
	case *ast.IfStmt:
		rewriteFuncLits(st.Cond)
		st.Cond = exprOf(replaceInExpr(st.Cond))
		if st.Init != nil {
			rewriteFuncLits(st.Init)
			st.Init = replaceInExpr(st.Init).(ast.Stmt)
		}
		rewriteBody(st.Body, st.Body, "if")
		if st.Else != nil {
			switch e := st.Else.(type) {
			case *ast.BlockStmt:
				rewriteBody(e, e, "else")
			default:
				r := rewriteStmt(e)
				if len(r) == 1 {
					st.Else = r[0]
				} else {
					st.Else = &ast.BlockStmt{List: r}
				}
			}
		}
		return []ast.Stmt{st}
	case *ast.ForStmt:
		if st.Init != nil {
			rewriteFuncLits(st.Init)
			st.Init = replaceInExpr(st.Init).(ast.Stmt)
		}
		if st.Cond != nil {
			rewriteFuncLits(st.Cond)
			st.Cond = exprOf(replaceInExpr(st.Cond))
		}
		if st.Post != nil {
			rewriteFuncLits(st.Post)
			st.Post = replaceInExpr(st.Post).(ast.Stmt)
		}
		rewriteBody(st.Body, st.Body, "for")
		return []ast.Stmt{st}
	case *ast.RangeStmt:
		rewriteFuncLits(st.X)
		if isChan(st.X) {
			return rewriteRangeChan(st)
		}
		if m, ord := isMap(st.X); m {
			stats["maprange"]++
			fn := "MapIter"
			if !ord {
				fn = "MapIterAny"
			}
			st.X = call(fn, siteLit(st, "maprange"), st.X)
		} else {
			st.X = exprOf(replaceInExpr(st.X))
		}
		rewriteBody(st.Body, st.Body, "range")
		return []ast.Stmt{st}
	case *ast.SwitchStmt:
		if st.Init != nil {
			rewriteFuncLits(st.Init)
			st.Init = replaceInExpr(st.Init).(ast.Stmt)
		}
		if st.Tag != nil {
			rewriteFuncLits(st.Tag)
			st.Tag = exprOf(replaceInExpr(st.Tag))
		}
		for _, c := range st.Body.List {
			cc := c.(*ast.CaseClause)
			cc.Body = rewriteList(cc.Body)
			if probeOn {
				cc.Body = append([]ast.Stmt{probeStmt(cc, "case")}, cc.Body...)
			}
		}
		return []ast.Stmt{st}
	case *ast.TypeSwitchStmt:
		for _, c := range st.Body.List {
			cc := c.(*ast.CaseClause)
			cc.Body = rewriteList(cc.Body)
			if probeOn {
				cc.Body = append([]ast.Stmt{probeStmt(cc, "case")}, cc.Body...)
			}
		}
		return []ast.Stmt{st}
	case *ast.LabeledStmt:
		r := rewriteStmt(st.Stmt)
		if len(r) == 0 {
			return []ast.Stmt{st}
		}
		st.Stmt = r[len(r)-1]
		return append(r[:len(r)-1:len(r)-1], st)
	case *ast.SendStmt:
		rewriteFuncLits(st.Value)
		st.Value = exprOf(replaceInExpr(st.Value))
		stats["send"]++
		return []ast.Stmt{yieldStmt(st, "pre-send"), st, yieldStmt(st, "post-send")}
	case *ast.GoStmt:
		return rewriteGo(st)
	case *ast.SelectStmt:
		return rewriteSelect(st)
	case *ast.DeferStmt:
		rewriteFuncLits(st.Call)
		return []ast.Stmt{st}
	case *ast.ExprStmt:
		if c, ok := st.X.(*ast.CallExpr); ok {
			if r := rewriteCallStmt(st, c); r != nil {
				return r
			}
		}
		rewriteFuncLits(s)
		return []ast.Stmt{replaceInExpr(s).(ast.Stmt)}
	default:
		rewriteFuncLits(s)
		return []ast.Stmt{replaceInExpr(s).(ast.Stmt)}
	}
}

// rewriteCallStmt handles statement-level calls that are ordering-relevant.
func rewriteCallStmt(st *ast.ExprStmt, c *ast.CallExpr) []ast.Stmt {
	switch {
	case pkgFunc(c) == "time.Sleep":
		stats["sleep"]++
		rewriteFuncLits(c)
		return []ast.Stmt{&ast.ExprStmt{X: call("Sleep", append([]ast.Expr{siteLit(st, "sleep")}, c.Args...)...)}}
	case isBuiltin(c, "close"):
		stats["close"]++
		return []ast.Stmt{yieldStmt(st, "pre-close"), st}
	case isBuiltin(c, "clear"):
		if m, _ := isMap(c.Args[0]); m {
			stats["clear"]++
			return []ast.Stmt{yieldStmt(st, "pre-clear"), st}
		}
	}
	switch methodOf(c) {
	case "(*sync.Once).Do":
		stats["once"]++
		rewriteFuncLits(c)
		se := c.Fun.(*ast.SelectorExpr)
		return []ast.Stmt{&ast.ExprStmt{X: call("OnceDo", &ast.UnaryExpr{Op: token.AND, X: se.X}, siteLit(st, "once"), c.Args[0])}}
	case "(*sync.Mutex).Lock", "(*sync.RWMutex).Lock":
		stats["lock"]++
		se := c.Fun.(*ast.SelectorExpr)
		try := &ast.FuncLit{Type: &ast.FuncType{Params: &ast.FieldList{}, Results: &ast.FieldList{List: []*ast.Field{{Type: ast.NewIdent("bool")}}}},
			Body: &ast.BlockStmt{List: []ast.Stmt{&ast.ReturnStmt{Results: []ast.Expr{&ast.CallExpr{Fun: &ast.SelectorExpr{X: se.X, Sel: ast.NewIdent("TryLock")}}}}}}}
		return []ast.Stmt{&ast.ExprStmt{X: call("LockLoop", siteLit(st, "lock"), try)}}
	case "(*sync.RWMutex).RLock":
		stats["lock"]++
		se := c.Fun.(*ast.SelectorExpr)
		try := &ast.FuncLit{Type: &ast.FuncType{Params: &ast.FieldList{}, Results: &ast.FieldList{List: []*ast.Field{{Type: ast.NewIdent("bool")}}}},
			Body: &ast.BlockStmt{List: []ast.Stmt{&ast.ReturnStmt{Results: []ast.Expr{&ast.CallExpr{Fun: &ast.SelectorExpr{X: se.X, Sel: ast.NewIdent("TryRLock")}}}}}}}
		return []ast.Stmt{&ast.ExprStmt{X: call("LockLoop", siteLit(st, "rlock"), try)}}
	case "(*sync.WaitGroup).Wait", "(*sync.Cond).Wait":
		stats["wait"]++
		return []ast.Stmt{yieldStmt(st, "pre-wait"), st, yieldStmt(st, "post-wait")}
	case "(*sync.Mutex).Unlock", "(*sync.RWMutex).Unlock", "(*sync.RWMutex).RUnlock":
		return []ast.Stmt{st, yieldStmt(st, "post-unlock")}
	}
	return nil
}

func rewriteRangeChan(st *ast.RangeStmt) []ast.Stmt {
	// for v := range ch { body }  =>  for { v, ok := simrt.Recv2(site, ch); if !ok { break }; body }
	stats["rangechan"]++
	okID := ast.NewIdent(fmt.Sprintf("__ok%d", nsite))
	var lhs ast.Expr = ast.NewIdent("_")
	tok := token.DEFINE
	if st.Key != nil {
		lhs = st.Key
		if st.Tok == token.ASSIGN {
			tok = token.ASSIGN
		}
	}
	var pre []ast.Stmt
	if tok == token.ASSIGN {
		pre = append(pre, &ast.DeclStmt{Decl: &ast.GenDecl{Tok: token.VAR, Specs: []ast.Spec{&ast.ValueSpec{Names: []*ast.Ident{okID}, Type: ast.NewIdent("bool")}}}})
	}
	recv := &ast.AssignStmt{Lhs: []ast.Expr{lhs, okID}, Tok: tok, Rhs: []ast.Expr{call("Recv2", siteLit(st, "rangechan"), st.X)}}
	brk := &ast.IfStmt{Cond: &ast.UnaryExpr{Op: token.NOT, X: okID}, Body: &ast.BlockStmt{List: []ast.Stmt{&ast.BranchStmt{Tok: token.BREAK}}}}
	body := rewriteList(st.Body.List)
	loop := &ast.ForStmt{Body: &ast.BlockStmt{List: append(append(pre, recv, brk), body...)}}
	return []ast.Stmt{loop}
}

func rewriteGo(st *ast.GoStmt) []ast.Stmt {
	// go f(a,b) => { __f := f; __a0 := a; simrt.Go(site, func(){ __f(__a0) }) }
	stats["go"]++
	rewriteFuncLits(st.Call)
	id := nsite
	var pre []ast.Stmt
	fn := ast.NewIdent(fmt.Sprintf("__f%d", id))
	pre = append(pre, &ast.AssignStmt{Lhs: []ast.Expr{fn}, Tok: token.DEFINE, Rhs: []ast.Expr{st.Call.Fun}})
	var args []ast.Expr
	for i, a := range st.Call.Args {
		aid := ast.NewIdent(fmt.Sprintf("__a%d_%d", id, i))
		pre = append(pre, &ast.AssignStmt{Lhs: []ast.Expr{aid}, Tok: token.DEFINE, Rhs: []ast.Expr{a}})
		args = append(args, aid)
	}
	inner := &ast.CallExpr{Fun: fn, Args: args, Ellipsis: st.Call.Ellipsis}
	lit := &ast.FuncLit{Type: &ast.FuncType{Params: &ast.FieldList{}}, Body: &ast.BlockStmt{List: []ast.Stmt{&ast.ExprStmt{X: inner}}}}
	pre = append(pre, &ast.ExprStmt{X: call("Go", siteLit(st, "go:"+goTarget(st.Call.Fun)), lit)})
	return []ast.Stmt{&ast.BlockStmt{List: pre}}
}

// goTarget names what a go statement starts ("c.reader", "func").
func goTarget(fun ast.Expr) string {
	if _, ok := fun.(*ast.FuncLit); ok {
		return "func"
	}
	var b bytes.Buffer
	format.Node(&b, fset, fun)
	s := b.String()
	if len(s) > 40 || strings.ContainsAny(s, "\n{") {
		return "expr"
	}
	return s
}

func rewriteSelect(st *ast.SelectStmt) []ast.Stmt {
	type cc struct {
		clause *ast.CommClause
		ch     ast.Expr
		lhs    []ast.Expr
		tok    token.Token
		send   ast.Expr // non-nil: a send case, the value to send
	}
	var cases []cc
	var def *ast.CommClause
	ok := true
	for _, c := range st.Body.List {
		cl := c.(*ast.CommClause)
		cl.Body = rewriteList(cl.Body)
		if probeOn {
			cl.Body = append([]ast.Stmt{probeStmt(cl, "comm")}, cl.Body...)
		}
		if cl.Comm == nil {
			def = cl
			continue
		}
		switch cm := cl.Comm.(type) {
		case *ast.ExprStmt:
			u, isU := cm.X.(*ast.UnaryExpr)
			if !isU || u.Op != token.ARROW {
				ok = false
				break
			}
			cases = append(cases, cc{clause: cl, ch: u.X})
		case *ast.AssignStmt:
			u, isU := cm.Rhs[0].(*ast.UnaryExpr)
			if !isU || u.Op != token.ARROW {
				ok = false
				break
			}
			cases = append(cases, cc{clause: cl, ch: u.X, lhs: cm.Lhs, tok: cm.Tok})
		case *ast.SendStmt:
			rewriteFuncLits(cm.Value)
			cases = append(cases, cc{clause: cl, ch: cm.Chan, send: exprOf(replaceInExpr(cm.Value))})
		default:
			ok = false
		}
	}
	if !ok {
		stats["select_raw"]++
		rawSel = append(rawSel, siteStr(st, "select"))
		return []ast.Stmt{yieldStmt(st, "pre-select-raw"), st, yieldStmt(st, "post-select-raw")}
	}
	stats["select"]++
	id := nsite
	var out []ast.Stmt
	siteExpr := siteLit(st, "select")
	out = append(out, yieldStmt(st, "pre-select"))
	chName := func(i int) *ast.Ident { return ast.NewIdent(fmt.Sprintf("__ch%d_%d", id, i)) }
	vName := func(i int) *ast.Ident { return ast.NewIdent(fmt.Sprintf("__v%d_%d", id, i)) }
	okName := func(i int) *ast.Ident { return ast.NewIdent(fmt.Sprintf("__ok%d_%d", id, i)) }
	sel := ast.NewIdent(fmt.Sprintf("__sel%d", id))
	// comm builds the communication of case i for the try and block phases
	comm := func(i int) ast.Stmt {
		if cases[i].send != nil {
			return &ast.SendStmt{Chan: chName(i), Value: vName(i)}
		}
		return &ast.AssignStmt{Lhs: []ast.Expr{vName(i), okName(i)}, Tok: token.ASSIGN, Rhs: []ast.Expr{&ast.UnaryExpr{Op: token.ARROW, X: chName(i)}}}
	}
	for i, c := range cases {
		out = append(out, &ast.AssignStmt{Lhs: []ast.Expr{chName(i)}, Tok: token.DEFINE, Rhs: []ast.Expr{c.ch}})
		if c.send != nil {
			// a send case: channel and value are evaluated once, on entry, as the language does
			out = append(out, &ast.AssignStmt{Lhs: []ast.Expr{vName(i)}, Tok: token.DEFINE, Rhs: []ast.Expr{c.send}})
			continue
		}
		out = append(out, &ast.AssignStmt{Lhs: []ast.Expr{vName(i), okName(i)}, Tok: token.DEFINE, Rhs: []ast.Expr{call("Zero", chName(i))}})
		out = append(out, &ast.AssignStmt{Lhs: []ast.Expr{ast.NewIdent("_"), ast.NewIdent("_")}, Tok: token.ASSIGN, Rhs: []ast.Expr{vName(i), okName(i)}})
	}
	out = append(out, &ast.AssignStmt{Lhs: []ast.Expr{sel}, Tok: token.DEFINE, Rhs: []ast.Expr{intLit(-1)}})
	var trySwitch []ast.Stmt
	for i := range cases {
		trySwitch = append(trySwitch, &ast.CaseClause{
			List: []ast.Expr{intLit(i)},
			Body: []ast.Stmt{&ast.SelectStmt{Body: &ast.BlockStmt{List: []ast.Stmt{
				&ast.CommClause{Comm: comm(i),
					Body: []ast.Stmt{&ast.AssignStmt{Lhs: []ast.Expr{sel}, Tok: token.ASSIGN, Rhs: []ast.Expr{intLit(i)}}}},
				&ast.CommClause{},
			}}}},
		})
	}
	iv := ast.NewIdent(fmt.Sprintf("__i%d", id))
	out = append(out, &ast.RangeStmt{Key: ast.NewIdent("_"), Value: iv, Tok: token.DEFINE,
		X: call("Order", siteExpr, intLit(len(cases))),
		Body: &ast.BlockStmt{List: []ast.Stmt{
			&ast.SwitchStmt{Tag: iv, Body: &ast.BlockStmt{List: trySwitch}},
			&ast.IfStmt{Cond: &ast.BinaryExpr{X: sel, Op: token.GEQ, Y: intLit(0)}, Body: &ast.BlockStmt{List: []ast.Stmt{&ast.BranchStmt{Tok: token.BREAK}}}},
		}}})
	if def == nil {
		var comms []ast.Stmt
		for i := range cases {
			comms = append(comms, &ast.CommClause{Comm: comm(i),
				Body: []ast.Stmt{&ast.AssignStmt{Lhs: []ast.Expr{sel}, Tok: token.ASSIGN, Rhs: []ast.Expr{intLit(i)}}}})
		}
		out = append(out, &ast.IfStmt{Cond: &ast.BinaryExpr{X: sel, Op: token.LSS, Y: intLit(0)},
			Body: &ast.BlockStmt{List: []ast.Stmt{
				&ast.SelectStmt{Body: &ast.BlockStmt{List: comms}},
				yieldStmt(st, "post-select"),
			}}})
	}
	var disp []ast.Stmt
	for i, c := range cases {
		var body []ast.Stmt
		if len(c.lhs) > 0 {
			rhs := []ast.Expr{vName(i)}
			if len(c.lhs) == 2 {
				rhs = append(rhs, okName(i))
			}
			body = append(body, &ast.AssignStmt{Lhs: c.lhs, Tok: c.tok, Rhs: rhs})
			if c.tok == token.DEFINE {
				for _, l := range c.lhs {
					if lid, ok := l.(*ast.Ident); ok && lid.Name != "_" {
						body = append(body, &ast.AssignStmt{Lhs: []ast.Expr{ast.NewIdent("_")}, Tok: token.ASSIGN, Rhs: []ast.Expr{ast.NewIdent(lid.Name)}})
					}
				}
			}
		}
		body = append(body, c.clause.Body...)
		disp = append(disp, &ast.CaseClause{List: []ast.Expr{intLit(i)}, Body: body})
	}
	if def != nil {
		disp = append(disp, &ast.CaseClause{Body: def.Body})
	}
	out = append(out, &ast.SwitchStmt{Tag: sel, Body: &ast.BlockStmt{List: disp}})
	return []ast.Stmt{&ast.BlockStmt{List: out}}
}

func funcName(fd *ast.FuncDecl) string {
	if fd.Recv != nil && len(fd.Recv.List) > 0 {
		var b bytes.Buffer
		format.Node(&b, fset, fd.Recv.List[0].Type)
		return "(" + b.String() + ")." + fd.Name.Name
	}
	return fd.Name.Name
}

func main() {
	src := flag.String("src", "", "package directory in /repo")
	dst := flag.String("dst", "", "output directory")
	shimOS := flag.Bool("os", false, "redirect \"os\" to simfs")
	meta := flag.String("meta", "", "metadata json output")
	pb := flag.Int("probebase", 0, "first probe id")
	noProbes := flag.Bool("noprobes", false, "do not insert block probes")
	hook := flag.String("hookmethods", "", "hook mode: only insert simYield(site) before each top-level statement of the methods named here (comma separated); no other rewrite, no import of the simulator")
	flag.Parse()
	if *hook != "" {
		hookMode(*src, *dst, strings.Split(*hook, ","))
		return
	}
	probeBase = *pb
	probeOn = !*noProbes

	ents, err := os.ReadDir(*src)
	if err != nil {
		fatal(err)
	}
	if err := os.MkdirAll(*dst, 0o755); err != nil {
		fatal(err)
	}
	var files []*ast.File
	var names []string
	for _, e := range ents {
		if !strings.HasSuffix(e.Name(), ".go") || strings.HasSuffix(e.Name(), "_test.go") {
			continue
		}
		f, err := parser.ParseFile(fset, filepath.Join(*src, e.Name()), nil, parser.ParseComments)
		if err != nil {
			fatal(err)
		}
		var keep []*ast.CommentGroup
		for _, cg := range f.Comments {
			if cg.End() < f.Package {
				keep = append(keep, cg)
			}
		}
		f.Comments = keep
		files = append(files, f)
		names = append(names, e.Name())
	}
	if len(files) == 0 {
		fatal(fmt.Errorf("no go files in %s", *src))
	}
	pkgName := files[0].Name.Name

	var typeErrs []string
	info = &types.Info{
		Types:      map[ast.Expr]types.TypeAndValue{},
		Uses:       map[*ast.Ident]types.Object{},
		Selections: map[*ast.SelectorExpr]*types.Selection{},
	}
	conf := types.Config{
		Importer: importer.ForCompiler(fset, "source", nil),
		Error:    func(err error) { typeErrs = append(typeErrs, err.Error()) },
	}
	conf.Check(pkgName, fset, files, info)
	if len(typeErrs) > 0 {
		// The tree does not type-check: the compiler will say so; do not guess.
		for _, e := range typeErrs {
			fmt.Fprintln(os.Stderr, "type error:", e)
		}
		os.Exit(3)
	}

	for i, f := range files {
		before := nsite + len(probes)
		for _, d := range f.Decls {
			if fd, ok := d.(*ast.FuncDecl); ok && fd.Body != nil {
				curFunc = funcName(fd)
				rewriteBody(fd.Body, fd, "func")
			}
		}
		// import shims
		for _, im := range f.Imports {
			p, _ := strconv.Unquote(im.Path.Value)
			switch {
			case p == "net":
				im.Path.Value = strconv.Quote("verifsim/simnet")
				if im.Name == nil {
					im.Name = ast.NewIdent("net")
				}
				stats["import_net"]++
			case p == "os" && *shimOS:
				im.Path.Value = strconv.Quote("verifsim/simfs")
				if im.Name == nil {
					im.Name = ast.NewIdent("os")
				}
				stats["import_os"]++
			}
		}
		if nsite+len(probes) != before {
			astutil.AddImport(fset, f, "verifsim/simrt")
		}
		// drop imports that became unused (maps after MapKeys rewrite, time after Sleep rewrite)
		for _, p := range []string{"maps", "time", "sync"} {
			if !astutil.UsesImport(f, p) {
				astutil.DeleteImport(fset, f, p)
			}
		}
		var buf bytes.Buffer
		if err := format.Node(&buf, fset, f); err != nil {
			fatal(fmt.Errorf("%s: %w", names[i], err))
		}
		if err := os.WriteFile(filepath.Join(*dst, names[i]), buf.Bytes(), 0o644); err != nil {
			fatal(err)
		}
	}
	sort.Strings(rawSel)
	m := Meta{Package: pkgName, Sites: nsite, Stats: stats, Probes: probes, UncontrolledSelect: rawSel}
	if *meta != "" {
		b, _ := json.MarshalIndent(m, "", " ")
		if err := os.WriteFile(*meta, b, 0o644); err != nil {
			fatal(err)
		}
	}
	fmt.Printf("instr %s: sites=%d probes=%d stats=%v\n", pkgName, nsite, len(probes), stats)
}

func fatal(err error) {
	fmt.Fprintln(os.Stderr, "verif-instr:", err)
	os.Exit(2)
}

// hookMode serves packages of other modules (protocol/model) that cannot import the simulator: the methods
// named get a call to the package-level hook simYield before each of their top-level statements, and a file
// declaring the hook is added. Only files that contain such a method are written.
func hookMode(src, dst string, methods []string) {
	want := map[string]bool{}
	for _, m := range methods {
		want[strings.TrimSpace(m)] = true
	}
	ents, err := os.ReadDir(src)
	if err != nil {
		fatal(err)
	}
	if err := os.MkdirAll(dst, 0o755); err != nil {
		fatal(err)
	}
	pkg := ""
	n := 0
	for _, e := range ents {
		if !strings.HasSuffix(e.Name(), ".go") || strings.HasSuffix(e.Name(), "_test.go") {
			continue
		}
		f, err := parser.ParseFile(fset, filepath.Join(src, e.Name()), nil, parser.ParseComments)
		if err != nil {
			fatal(err)
		}
		pkg = f.Name.Name
		changed := false
		for _, d := range f.Decls {
			fd, ok := d.(*ast.FuncDecl)
			if !ok || fd.Body == nil || fd.Recv == nil || !want[fd.Name.Name] {
				continue
			}
			var out []ast.Stmt
			for _, st := range fd.Body.List {
				p := fset.Position(st.Pos())
				site := fmt.Sprintf("%s:%d:%s", filepath.Base(p.Filename), p.Line, fd.Name.Name)
				out = append(out, &ast.ExprStmt{X: &ast.CallExpr{Fun: ast.NewIdent("simYield"), Args: []ast.Expr{&ast.BasicLit{Kind: token.STRING, Value: strconv.Quote(site)}}}}, st)
				n++
			}
			fd.Body.List = out
			changed = true
		}
		if !changed {
			continue
		}
		var keep []*ast.CommentGroup
		for _, cg := range f.Comments {
			if cg.End() < f.Package {
				keep = append(keep, cg)
			}
		}
		f.Comments = keep
		var buf bytes.Buffer
		if err := format.Node(&buf, fset, f); err != nil {
			fatal(err)
		}
		if err := os.WriteFile(filepath.Join(dst, e.Name()), buf.Bytes(), 0o644); err != nil {
			fatal(err)
		}
	}
	hookSrc := "package " + pkg + "\n\n// SimYield is set by the deterministic simulator (build overlay only; not part of the repository).\nvar SimYield func(site string)\n\nfunc simYield(site string) {\n\tif SimYield != nil {\n\t\tSimYield(site)\n\t}\n}\n"
	if err := os.WriteFile(filepath.Join(dst, "zz_verif_simyield.go"), []byte(hookSrc), 0o644); err != nil {
		fatal(err)
	}
	fmt.Printf("instr %s (hook mode): %d yield sites\n", pkg, n)
}
