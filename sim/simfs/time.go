package simfs

import "time"

type timeT = time.Time
