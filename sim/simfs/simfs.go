// Package simfs is the in-memory stand-in for the part of package os that attachment uses. It resolves
// paths the way Linux does (., .., repeated and trailing separators, absolute paths, NUL, over-long
// components), keeps every effect with its resolved absolute path, and never touches the real disk.
package simfs

import (
	"io"
	"io/fs"
	stdos "os"
	"sort"
	"strconv"
	"strings"
	"syscall"
)

type FileMode = fs.FileMode
type PathError = fs.PathError
type FileInfo = fs.FileInfo

const (
	ModePerm = fs.ModePerm
	ModeDir  = fs.ModeDir

	O_RDONLY = stdos.O_RDONLY
	O_WRONLY = stdos.O_WRONLY
	O_RDWR   = stdos.O_RDWR
	O_APPEND = stdos.O_APPEND
	O_CREATE = stdos.O_CREATE
	O_EXCL   = stdos.O_EXCL
	O_SYNC   = stdos.O_SYNC
	O_TRUNC  = stdos.O_TRUNC

	PathSeparator = '/'
)

var (
	ErrNotExist   = fs.ErrNotExist
	ErrExist      = fs.ErrExist
	ErrPermission = fs.ErrPermission
	ErrInvalid    = fs.ErrInvalid
	Stdout        = stdos.Stdout
	Stderr        = stdos.Stderr
	Args          = stdos.Args
)

type node struct {
	dir      bool
	data     []byte
	children map[string]*node
	preexist bool
}

// Effect is one mutation of the tree.
type Effect struct {
	Op   string // mkdir | create | write | append | remove
	Path string // resolved absolute path
	Size int
	Step int
	G    string // goroutine that performed it
}

var (
	root    *node
	cwd     string
	Effects []Effect
	// Fault, when set, may fail an operation (disk.enospc / disk.eio injection).
	Fault func(op, path string) error
	// StepFn stamps effects.
	StepFn func() int
	// WhoFn names the goroutine performing an effect.
	WhoFn func() string
	// YieldFn, when set, is called at the start of every operation that a real kernel would perform as a system
	// call: another goroutine may run between two file-system operations of the same goroutine.
	YieldFn func(site string)
)

// Reset empties the tree; cwd is created.
//
//go:norace
func yield(site string) {
	if YieldFn != nil {
		YieldFn(site)
	}
}

func Reset(workdir string) {
	tempSeq = 0
	root = &node{dir: true, children: map[string]*node{}}
	cwd = workdir
	Effects = nil
	Fault = nil
	mk(root, split(workdir), true)
}

//go:norace
func split(abs string) []string {
	var out []string
	for _, c := range strings.Split(abs, "/") {
		if c != "" {
			out = append(out, c)
		}
	}
	return out
}

//go:norace
func mk(n *node, comps []string, pre bool) *node {
	for _, c := range comps {
		ch := n.children[c]
		if ch == nil {
			ch = &node{dir: true, children: map[string]*node{}, preexist: pre}
			n.children[c] = ch
		}
		n = ch
	}
	return n
}

// AddDir / AddFile pre-populate the tree (absolute or cwd-relative paths).
//
//go:norace
func AddDir(p string) {
	comps, _ := resolveLexical(p)
	mk(root, comps, true)
}

//go:norace
func AddFile(p string, data []byte) {
	comps, _ := resolveLexical(p)
	if len(comps) == 0 {
		return
	}
	d := mk(root, comps[:len(comps)-1], true)
	d.children[comps[len(comps)-1]] = &node{data: append([]byte(nil), data...), preexist: true}
}

//go:norace
func who() string {
	if WhoFn != nil {
		return WhoFn()
	}
	return ""
}

func stamp() int {
	if StepFn != nil {
		return StepFn()
	}
	return 0
}

// resolveLexical turns p into absolute components without consulting the tree ("..": parent, as Linux does
// when no symlinks exist — and simfs has none). Errors mirror Linux.
//
//go:norace
func resolveLexical(p string) ([]string, error) {
	if p == "" {
		return nil, syscall.ENOENT
	}
	if strings.IndexByte(p, 0) >= 0 {
		return nil, syscall.EINVAL
	}
	if len(p) >= 4096 {
		return nil, syscall.ENAMETOOLONG
	}
	var comps []string
	if !strings.HasPrefix(p, "/") {
		comps = split(cwd)
	}
	for _, c := range strings.Split(p, "/") {
		switch c {
		case "", ".":
		case "..":
			if len(comps) > 0 {
				comps = comps[:len(comps)-1]
			}
		default:
			if len(c) > 255 {
				return nil, syscall.ENAMETOOLONG
			}
			comps = append(comps, c)
		}
	}
	return comps, nil
}

// walk resolves p against the tree. Every intermediate component must be an existing directory (so
// "a/../b" fails when a does not exist, as on Linux).
//
//go:norace
func walk(p string) (parent *node, name string, target *node, abs string, err error) {
	if p == "" {
		return nil, "", nil, "", syscall.ENOENT
	}
	if strings.IndexByte(p, 0) >= 0 {
		return nil, "", nil, "", syscall.EINVAL
	}
	if len(p) >= 4096 {
		return nil, "", nil, "", syscall.ENAMETOOLONG
	}
	type frame struct {
		n    *node
		name string
	}
	stack := []frame{{root, ""}}
	if !strings.HasPrefix(p, "/") {
		n := root
		for _, c := range split(cwd) {
			n = n.children[c]
			stack = append(stack, frame{n, c})
		}
	}
	parts := strings.Split(p, "/")
	trailingSlash := strings.HasSuffix(p, "/")
	// drop empty parts
	var comps []string
	for _, c := range parts {
		if c != "" {
			comps = append(comps, c)
		}
	}
	for i, c := range comps {
		cur := stack[len(stack)-1].n
		last := i == len(comps)-1
		if cur == nil {
			return nil, "", nil, "", syscall.ENOENT
		}
		if !cur.dir {
			return nil, "", nil, "", syscall.ENOTDIR
		}
		switch c {
		case ".":
			continue
		case "..":
			if len(stack) > 1 {
				stack = stack[:len(stack)-1]
			}
			continue
		}
		if len(c) > 255 {
			return nil, "", nil, "", syscall.ENAMETOOLONG
		}
		ch := cur.children[c]
		if ch == nil && !last {
			return nil, "", nil, "", syscall.ENOENT
		}
		stack = append(stack, frame{ch, c})
	}
	var names []string
	for _, f := range stack[1:] {
		names = append(names, f.name)
	}
	abs = "/" + strings.Join(names, "/")
	top := stack[len(stack)-1]
	if len(stack) == 1 {
		return nil, "", root, "/", nil
	}
	parent = stack[len(stack)-2].n
	if top.n != nil && trailingSlash && !top.n.dir {
		return nil, "", nil, abs, syscall.ENOTDIR
	}
	return parent, top.name, top.n, abs, nil
}

//go:norace
func perr(op, path string, err error) error {
	if err == nil {
		return nil
	}
	return &PathError{Op: op, Path: path, Err: err}
}

//go:norace
func fault(op, path string) error {
	if Fault != nil {
		return Fault(op, path)
	}
	return nil
}

//go:norace
func Getwd() (string, error) {
	yield("fs:Getwd")
	return cwd, nil
}

//go:norace
func Mkdir(p string, perm FileMode) error {
	yield("fs:Mkdir")
	if err := fault("mkdir", p); err != nil {
		return perr("mkdir", p, err)
	}
	parent, name, target, abs, err := walk(p)
	if err != nil {
		return perr("mkdir", p, err)
	}
	if target != nil {
		return perr("mkdir", p, syscall.EEXIST)
	}
	if parent == nil || !parent.dir {
		return perr("mkdir", p, syscall.ENOTDIR)
	}
	parent.children[name] = &node{dir: true, children: map[string]*node{}}
	Effects = append(Effects, Effect{Op: "mkdir", Path: abs, Step: stamp(), G: who()})
	return nil
}

//go:norace
func MkdirAll(p string, perm FileMode) error {
	yield("fs:MkdirAll")
	if err := fault("mkdirall", p); err != nil {
		return perr("mkdir", p, err)
	}
	if p == "" {
		return perr("mkdir", p, syscall.ENOENT)
	}
	if strings.IndexByte(p, 0) >= 0 {
		return perr("mkdir", p, syscall.EINVAL)
	}
	// like os.MkdirAll: create each missing prefix in turn
	prefix := ""
	rest := p
	if strings.HasPrefix(p, "/") {
		prefix = "/"
		rest = strings.TrimLeft(p, "/")
	}
	for _, c := range strings.Split(rest, "/") {
		if c == "" {
			continue
		}
		if prefix == "" || prefix == "/" {
			prefix += c
		} else {
			prefix += "/" + c
		}
		_, _, target, _, err := walk(prefix)
		if err != nil {
			return perr("mkdir", prefix, err)
		}
		if target != nil {
			if !target.dir {
				return perr("mkdir", prefix, syscall.ENOTDIR)
			}
			continue
		}
		if err := Mkdir(prefix, perm); err != nil {
			return err
		}
	}
	return nil
}

//go:norace
func WriteFile(name string, data []byte, perm FileMode) error {
	yield("fs:WriteFile")
	f, err := OpenFile(name, O_WRONLY|O_CREATE|O_TRUNC, perm)
	if err != nil {
		return err
	}
	_, err = f.Write(data)
	if err1 := f.Close(); err1 != nil && err == nil {
		err = err1
	}
	return err
}

//go:norace
func ReadFile(name string) ([]byte, error) {
	yield("fs:ReadFile")
	_, _, target, _, err := walk(name)
	if err != nil {
		return nil, perr("open", name, err)
	}
	if target == nil {
		return nil, perr("open", name, syscall.ENOENT)
	}
	if target.dir {
		return nil, perr("read", name, syscall.EISDIR)
	}
	return append([]byte(nil), target.data...), nil
}

// File is an open simulated file.
type File struct {
	n      *node
	abs    string
	name   string
	flag   int
	closed bool
	pos    int
}

//go:norace
func Create(name string) (*File, error) { return OpenFile(name, O_RDWR|O_CREATE|O_TRUNC, 0o666) }

// tempSeq numbers the names CreateTemp hands out (deterministic: a counter, reset with the file system).
var tempSeq int

// CreateTemp creates a new file in dir (the simulated temporary directory when dir is empty) whose name is
// pattern with its last "*" - or its end - replaced by a number.
//
//go:norace
func CreateTemp(dir, pattern string) (*File, error) {
	if dir == "" {
		dir = TempDir()
	}
	for {
		tempSeq++
		n := strconv.Itoa(1000000000 + tempSeq)[1:]
		name := pattern + n
		if i := strings.LastIndex(pattern, "*"); i >= 0 {
			name = pattern[:i] + n + pattern[i+1:]
		}
		f, err := OpenFile(dir+"/"+name, O_RDWR|O_CREATE|O_EXCL, 0o600)
		if err != nil && IsExist(err) {
			continue
		}
		return f, err
	}
}

//go:norace
func Open(name string) (*File, error) { return OpenFile(name, O_RDONLY, 0) }

//go:norace
func OpenFile(name string, flag int, perm FileMode) (*File, error) {
	yield("fs:OpenFile")
	if err := fault("open", name); err != nil {
		return nil, perr("open", name, err)
	}
	parent, base, target, abs, err := walk(name)
	if err != nil {
		return nil, perr("open", name, err)
	}
	if target == nil {
		if flag&O_CREATE == 0 {
			return nil, perr("open", name, syscall.ENOENT)
		}
		if strings.HasSuffix(name, "/") {
			return nil, perr("open", name, syscall.EISDIR)
		}
		if parent == nil || !parent.dir {
			return nil, perr("open", name, syscall.ENOTDIR)
		}
		target = &node{}
		parent.children[base] = target
		Effects = append(Effects, Effect{Op: "create", Path: abs, Step: stamp(), G: who()})
	} else {
		if flag&O_CREATE != 0 && flag&O_EXCL != 0 {
			return nil, perr("open", name, syscall.EEXIST)
		}
		if target.dir && flag&(O_WRONLY|O_RDWR) != 0 {
			return nil, perr("open", name, syscall.EISDIR)
		}
		if flag&O_TRUNC != 0 && !target.dir {
			target.data = nil
			Effects = append(Effects, Effect{Op: "write", Path: abs, Size: 0, Step: stamp(), G: who()})
		}
	}
	return &File{n: target, abs: abs, name: name, flag: flag}, nil
}

//go:norace
func (f *File) Name() string { return f.name }

//go:norace
func (f *File) Write(b []byte) (int, error) {
	if f == nil {
		return 0, ErrInvalid
	}
	if f.closed {
		return 0, perr("write", f.name, fs.ErrClosed)
	}
	if err := fault("write", f.abs); err != nil {
		return 0, perr("write", f.name, err)
	}
	if f.flag&O_APPEND != 0 {
		f.n.data = append(f.n.data, b...)
		Effects = append(Effects, Effect{Op: "append", Path: f.abs, Size: len(b), Step: stamp(), G: who()})
	} else {
		if f.pos+len(b) > len(f.n.data) {
			f.n.data = append(f.n.data[:min(f.pos, len(f.n.data))], make([]byte, f.pos+len(b)-min(f.pos, len(f.n.data)))...)
		}
		copy(f.n.data[f.pos:], b)
		f.pos += len(b)
		Effects = append(Effects, Effect{Op: "write", Path: f.abs, Size: len(b), Step: stamp(), G: who()})
	}
	return len(b), nil
}

//go:norace
func (f *File) WriteString(s string) (int, error) { return f.Write([]byte(s)) }

//go:norace
func (f *File) Sync() error {
	if f == nil {
		return ErrInvalid
	}
	if err := fault("sync", f.abs); err != nil {
		return perr("sync", f.name, err)
	}
	return nil
}

//go:norace
func (f *File) Close() error {
	if f == nil {
		return ErrInvalid
	}
	if f.closed {
		return perr("close", f.name, fs.ErrClosed)
	}
	f.closed = true
	return nil
}

//go:norace
func Remove(name string) error {
	yield("fs:Remove")
	parent, base, target, abs, err := walk(name)
	if err != nil {
		return perr("remove", name, err)
	}
	if target == nil || parent == nil {
		return perr("remove", name, syscall.ENOENT)
	}
	if target.dir && len(target.children) > 0 {
		return perr("remove", name, syscall.ENOTEMPTY)
	}
	delete(parent.children, base)
	Effects = append(Effects, Effect{Op: "remove", Path: abs, Step: stamp(), G: who()})
	return nil
}

type info struct {
	name string
	n    *node
}

//go:norace
func (i info) Name() string { return i.name }

//go:norace
func (i info) Size() int64 { return int64(len(i.n.data)) }

//go:norace
func (i info) Mode() FileMode {
	if i.n.dir {
		return ModeDir | 0o755
	}
	return 0o644
}

//go:norace
func (i info) ModTime() (t timeT) { return }

//go:norace
func (i info) IsDir() bool { return i.n.dir }

//go:norace
func (i info) Sys() any { return nil }

//go:norace
func Stat(name string) (FileInfo, error) {
	yield("fs:Stat")
	_, base, target, _, err := walk(name)
	if err != nil {
		return nil, perr("stat", name, err)
	}
	if target == nil {
		return nil, perr("stat", name, syscall.ENOENT)
	}
	return info{base, target}, nil
}

//go:norace
func Lstat(name string) (FileInfo, error) { return Stat(name) }

//go:norace
func IsNotExist(err error) bool { return stdos.IsNotExist(err) }

//go:norace
func IsExist(err error) bool { return stdos.IsExist(err) }

//go:norace
func IsPermission(err error) bool { return stdos.IsPermission(err) }

//go:norace
func Getenv(k string) string { return "" }

//go:norace
func Exit(code int) { panic("simfs: os.Exit called by the application") }

// Snapshot lists every file (not directory) in the tree with its size; preexisting ones are flagged.
type Entry struct {
	Path     string
	Dir      bool
	Size     int
	Preexist bool
	Data     []byte
}

//go:norace
func Snapshot() []Entry {
	var out []Entry
	var rec func(n *node, p string)
	rec = func(n *node, p string) {
		names := make([]string, 0, len(n.children))
		for k := range n.children {
			names = append(names, k)
		}
		sort.Strings(names)
		for _, k := range names {
			ch := n.children[k]
			cp := p + "/" + k
			out = append(out, Entry{Path: cp, Dir: ch.dir, Size: len(ch.data), Preexist: ch.preexist, Data: ch.data})
			if ch.dir {
				rec(ch, cp)
			}
		}
	}
	rec(root, "")
	return out
}

// ---- further parts of package os a changed tree might use ----

type DirEntry = fs.DirEntry

var ErrClosed = fs.ErrClosed

//go:norace
func Rename(oldpath, newpath string) error {
	yield("fs:Rename")
	op, ob, ot, _, err := walk(oldpath)
	if err != nil {
		return perr("rename", oldpath, err)
	}
	if ot == nil || op == nil {
		return perr("rename", oldpath, syscall.ENOENT)
	}
	np, nb, _, nabs, err := walk(newpath)
	if err != nil {
		return perr("rename", newpath, err)
	}
	if np == nil || !np.dir {
		return perr("rename", newpath, syscall.ENOTDIR)
	}
	delete(op.children, ob)
	np.children[nb] = ot
	Effects = append(Effects, Effect{Op: "create", Path: nabs, Size: len(ot.data), Step: stamp(), G: who()})
	return nil
}

//go:norace
func RemoveAll(p string) error {
	yield("fs:RemoveAll")
	parent, base, target, abs, err := walk(p)
	if err != nil || target == nil || parent == nil {
		return nil
	}
	delete(parent.children, base)
	Effects = append(Effects, Effect{Op: "remove", Path: abs, Step: stamp(), G: who()})
	return nil
}

//go:norace
func Chmod(name string, mode FileMode) error {
	yield("fs:Chmod")
	_, _, target, _, err := walk(name)
	if err != nil {
		return perr("chmod", name, err)
	}
	if target == nil {
		return perr("chmod", name, syscall.ENOENT)
	}
	return nil
}

//go:norace
func ReadDir(name string) ([]DirEntry, error) {
	yield("fs:ReadDir")
	_, _, target, _, err := walk(name)
	if err != nil {
		return nil, perr("open", name, err)
	}
	if target == nil {
		return nil, perr("open", name, syscall.ENOENT)
	}
	if !target.dir {
		return nil, perr("readdir", name, syscall.ENOTDIR)
	}
	names := make([]string, 0, len(target.children))
	for k := range target.children {
		names = append(names, k)
	}
	sort.Strings(names)
	var out []DirEntry
	for _, k := range names {
		out = append(out, fs.FileInfoToDirEntry(info{k, target.children[k]}))
	}
	return out, nil
}

func Hostname() (string, error)         { return "simhost", nil }
func Getpid() int                       { return 4242 }
func Environ() []string                 { return nil }
func LookupEnv(k string) (string, bool) { return "", false }
func TempDir() string                   { return "/tmp" }
func UserHomeDir() (string, error)      { return "/root", nil }
func Chdir(dir string) error {
	yield("fs:Chdir")
	_, _, target, abs, err := walk(dir)
	if err != nil {
		return perr("chdir", dir, err)
	}
	if target == nil || !target.dir {
		return perr("chdir", dir, syscall.ENOENT)
	}
	cwd = abs
	return nil
}

//go:norace
func (f *File) Read(b []byte) (int, error) {
	if f == nil || f.closed {
		return 0, ErrInvalid
	}
	if f.pos >= len(f.n.data) {
		return 0, io.EOF
	}
	n := copy(b, f.n.data[f.pos:])
	f.pos += n
	return n, nil
}

//go:norace
func (f *File) Stat() (FileInfo, error) {
	if f == nil {
		return nil, ErrInvalid
	}
	return info{f.name, f.n}, nil
}

//go:norace
func (f *File) Truncate(size int64) error {
	if f == nil {
		return ErrInvalid
	}
	if int(size) < len(f.n.data) {
		f.n.data = f.n.data[:size]
	}
	Effects = append(Effects, Effect{Op: "write", Path: f.abs, Size: 0, Step: stamp(), G: who()})
	return nil
}

//go:norace
func (f *File) Seek(offset int64, whence int) (int64, error) {
	switch whence {
	case 0:
		f.pos = int(offset)
	case 1:
		f.pos += int(offset)
	case 2:
		f.pos = len(f.n.data) + int(offset)
	}
	if f.pos < 0 {
		f.pos = 0
	}
	return int64(f.pos), nil
}

//go:norace
func (f *File) WriteAt(b []byte, off int64) (int, error) {
	save := f.pos
	f.pos = int(off)
	fl := f.flag
	f.flag &^= O_APPEND
	n, err := f.Write(b)
	f.flag = fl
	f.pos = save
	return n, err
}
