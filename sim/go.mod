module verifsim

go 1.26.8

require (
	github.com/anishathalye/porcupine v1.3.0
	github.com/cuteLittleDevil/go-jt808/protocol v1.12.0
	github.com/cuteLittleDevil/go-jt808/attachment v0.0.0
	github.com/cuteLittleDevil/go-jt808/service v0.0.0
	github.com/cuteLittleDevil/go-jt808/shared v1.5.0
	github.com/cuteLittleDevil/go-jt808/terminal v0.0.0
	golang.org/x/tools v0.50.0
)

require golang.org/x/text v0.21.0 // indirect

replace github.com/cuteLittleDevil/go-jt808/protocol => /repo/protocol

replace github.com/cuteLittleDevil/go-jt808/shared => /repo/shared

replace github.com/cuteLittleDevil/go-jt808/terminal => /repo/terminal

replace github.com/cuteLittleDevil/go-jt808/service => /repo/service

replace github.com/cuteLittleDevil/go-jt808/attachment => /repo/attachment
