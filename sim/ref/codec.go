// Package ref holds the oracles' ground truth: a JT/T 808 frame codec and small sequential reference models
// written from the standard, independent of the code under test.
package ref

import (
	"encoding/binary"
	"errors"
	"fmt"
)

// Frame is a JT/T 808 frame in decoded form.
type Frame struct {
	ID      uint16
	Ver19   bool   // 2019 layout (property bit 14, version byte, 10-byte BCD phone)
	VerByte byte   // protocol version byte of the 2019 layout
	Phone   []byte // BCD, 6 bytes (2013) or 10 bytes (2019)
	Serial  uint16
	Sub     bool
	Total   uint16
	No      uint16
	Encrypt byte // bits 10..12
	Rsv15   bool
	Body    []byte
}

// Escape applies the transport escaping and adds both delimiters.
func Escape(payload []byte) []byte {
	out := make([]byte, 0, len(payload)+8)
	out = append(out, 0x7e)
	for _, b := range payload {
		switch b {
		case 0x7e:
			out = append(out, 0x7d, 0x02)
		case 0x7d:
			out = append(out, 0x7d, 0x01)
		default:
			out = append(out, b)
		}
	}
	return append(out, 0x7e)
}

// Unescape is the strict inverse: both delimiters, no interior delimiter, every 0x7d followed by 01 or 02.
func Unescape(frame []byte) ([]byte, error) {
	if len(frame) < 2 || frame[0] != 0x7e || frame[len(frame)-1] != 0x7e {
		return nil, errors.New("missing delimiter")
	}
	in := frame[1 : len(frame)-1]
	out := make([]byte, 0, len(in))
	for i := 0; i < len(in); i++ {
		switch in[i] {
		case 0x7e:
			return nil, errors.New("interior delimiter")
		case 0x7d:
			if i+1 >= len(in) {
				return nil, errors.New("dangling escape")
			}
			i++
			switch in[i] {
			case 0x01:
				out = append(out, 0x7d)
			case 0x02:
				out = append(out, 0x7e)
			default:
				return nil, errors.New("bad escape pair")
			}
		default:
			out = append(out, in[i])
		}
	}
	return out, nil
}

func Xor(b []byte) byte {
	var x byte
	for _, v := range b {
		x ^= v
	}
	return x
}

// Payload returns header+body+checksum, unescaped.
func (f Frame) Payload() []byte {
	prop := uint16(len(f.Body)) & 0x3ff
	prop |= uint16(f.Encrypt&7) << 10
	if f.Sub {
		prop |= 1 << 13
	}
	if f.Ver19 {
		prop |= 1 << 14
	}
	if f.Rsv15 {
		prop |= 1 << 15
	}
	p := make([]byte, 0, 32+len(f.Body))
	p = binary.BigEndian.AppendUint16(p, f.ID)
	p = binary.BigEndian.AppendUint16(p, prop)
	if f.Ver19 {
		p = append(p, f.VerByte)
	}
	p = append(p, f.Phone...)
	p = binary.BigEndian.AppendUint16(p, f.Serial)
	if f.Sub {
		p = binary.BigEndian.AppendUint16(p, f.Total)
		p = binary.BigEndian.AppendUint16(p, f.No)
	}
	p = append(p, f.Body...)
	p = append(p, Xor(p))
	return p
}

// Encode returns the escaped frame with delimiters.
func (f Frame) Encode() []byte { return Escape(f.Payload()) }

// Decode strictly decodes one complete escaped frame.
func Decode(frame []byte) (Frame, error) {
	var f Frame
	p, err := Unescape(frame)
	if err != nil {
		return f, err
	}
	if len(p) < 5 {
		return f, errors.New("too short")
	}
	if Xor(p) != 0 {
		return f, errors.New("checksum")
	}
	f.ID = binary.BigEndian.Uint16(p[0:2])
	prop := binary.BigEndian.Uint16(p[2:4])
	blen := int(prop & 0x3ff)
	f.Encrypt = byte(prop>>10) & 7
	f.Sub = prop&(1<<13) != 0
	f.Ver19 = prop&(1<<14) != 0
	f.Rsv15 = prop&(1<<15) != 0
	i := 4
	pl := 6
	if f.Ver19 {
		if len(p) < 6 {
			return f, errors.New("too short")
		}
		f.VerByte = p[4]
		i = 5
		pl = 10
	}
	need := i + pl + 2
	if f.Sub {
		need += 4
	}
	if len(p) < need+1 {
		return f, errors.New("header too short")
	}
	f.Phone = append([]byte(nil), p[i:i+pl]...)
	i += pl
	f.Serial = binary.BigEndian.Uint16(p[i : i+2])
	i += 2
	if f.Sub {
		f.Total = binary.BigEndian.Uint16(p[i : i+2])
		f.No = binary.BigEndian.Uint16(p[i+2 : i+4])
		i += 4
	}
	if len(p)-1-i != blen {
		return f, fmt.Errorf("body length %d, header says %d", len(p)-1-i, blen)
	}
	f.Body = append([]byte(nil), p[i:len(p)-1]...)
	return f, nil
}

// DecodeOversized recognises a frame whose body is longer than the 1023 bytes the 10-bit length field can say and
// whose encoder let the length spill into the three encryption bits above it (length field + encryption bits,
// read as one 13-bit number, equal the actual body length). It returns the frame with the actual body.
func DecodeOversized(frame []byte) (Frame, bool) {
	var f Frame
	p, err := Unescape(frame)
	if err != nil || len(p) < 6 || Xor(p) != 0 {
		return f, false
	}
	f.ID = binary.BigEndian.Uint16(p[0:2])
	prop := binary.BigEndian.Uint16(p[2:4])
	if prop&(1<<13) != 0 {
		return f, false
	}
	f.Ver19 = prop&(1<<14) != 0
	i, pl := 4, 6
	if f.Ver19 {
		f.VerByte = p[4]
		i, pl = 5, 10
	}
	if len(p) < i+pl+2+1 {
		return f, false
	}
	f.Phone = append([]byte(nil), p[i:i+pl]...)
	i += pl
	f.Serial = binary.BigEndian.Uint16(p[i : i+2])
	i += 2
	actual := len(p) - 1 - i
	if actual <= 1023 || int(prop&0x1fff) != actual {
		return f, false
	}
	f.Body = append([]byte(nil), p[i:len(p)-1]...)
	return f, true
}

// SplitFrames cuts a byte stream that consists of complete frames into frames. ok=false if the stream is
// not a sequence of delimiter-enclosed runs.
func SplitFrames(stream []byte) (frames [][]byte, ok bool) {
	i := 0
	for i < len(stream) {
		if stream[i] != 0x7e {
			return frames, false
		}
		j := i + 1
		for j < len(stream) && stream[j] != 0x7e {
			j++
		}
		if j >= len(stream) {
			return frames, false
		}
		frames = append(frames, stream[i:j+1])
		i = j + 1
	}
	return frames, true
}

// PhoneDigits renders a BCD phone as the decimal string without leading zeros (the registry key and the
// authentication code the server issues).
func PhoneDigits(bcd []byte) string {
	s := make([]byte, 0, 2*len(bcd))
	for _, b := range bcd {
		s = append(s, "0123456789abcdef"[b>>4], "0123456789abcdef"[b&15])
	}
	i := 0
	for i < len(s) && s[i] == '0' {
		i++
	}
	if i == len(s) {
		return string(s) // a number made of zeros only keeps its digits: a terminal is never named ""
	}
	return string(s[i:])
}

// ---- bodies of the platform messages the oracles read ----

// P8001 general response: serial(2) id(2) result(1).
type P8001 struct {
	Serial uint16
	ID     uint16
	Result byte
}

func ParseP8001(b []byte) (P8001, error) {
	if len(b) != 5 {
		return P8001{}, fmt.Errorf("0x8001 body length %d", len(b))
	}
	return P8001{binary.BigEndian.Uint16(b), binary.BigEndian.Uint16(b[2:]), b[4]}, nil
}

// P8100 registration response: serial(2) result(1) code(rest, only when result==0).
type P8100 struct {
	Serial uint16
	Result byte
	Code   []byte
}

func ParseP8100(b []byte) (P8100, error) {
	if len(b) < 3 {
		return P8100{}, fmt.Errorf("0x8100 body length %d", len(b))
	}
	return P8100{binary.BigEndian.Uint16(b), b[2], append([]byte(nil), b[3:]...)}, nil
}

// P8800 multimedia upload response: id(4) [count(1) ids(2 each)].
type P8800 struct {
	MediaID uint32
	Retrans []uint16
}

func ParseP8800(b []byte) (P8800, error) {
	if len(b) < 4 {
		return P8800{}, fmt.Errorf("0x8800 body length %d", len(b))
	}
	r := P8800{MediaID: binary.BigEndian.Uint32(b)}
	if len(b) > 4 {
		n := int(b[4])
		if len(b) != 5+2*n {
			return r, fmt.Errorf("0x8800 retransmit list length")
		}
		for i := 0; i < n; i++ {
			r.Retrans = append(r.Retrans, binary.BigEndian.Uint16(b[5+2*i:]))
		}
	}
	return r, nil
}

// P8003 re-request: original serial(2) count(1) numbers(2 each).
type P8003 struct {
	OrigSerial uint16
	Nos        []uint16
}

func ParseP8003(b []byte) (P8003, error) {
	if len(b) < 3 {
		return P8003{}, fmt.Errorf("0x8003 body length %d", len(b))
	}
	n := int(b[2])
	if len(b) != 3+2*n {
		return P8003{}, fmt.Errorf("0x8003 body length %d for count %d", len(b), n)
	}
	r := P8003{OrigSerial: binary.BigEndian.Uint16(b)}
	for i := 0; i < n; i++ {
		r.Nos = append(r.Nos, binary.BigEndian.Uint16(b[3+2*i:]))
	}
	return r, nil
}

// P9212 file upload completion response: nameLen(1) name type(1) result(1) count(1) (offset(4) length(4))*.
type P9212 struct {
	Name   string
	Type   byte
	Result byte
	Ranges [][2]uint32
}

func ParseP9212(b []byte) (P9212, error) {
	if len(b) < 1 {
		return P9212{}, errors.New("0x9212 empty")
	}
	n := int(b[0])
	if len(b) < 1+n+3 {
		return P9212{}, fmt.Errorf("0x9212 body length %d", len(b))
	}
	r := P9212{Name: string(b[1 : 1+n]), Type: b[1+n], Result: b[2+n]}
	cnt := int(b[3+n])
	rest := b[4+n:]
	if len(rest) != 8*cnt {
		return r, fmt.Errorf("0x9212 has %d bytes for %d ranges", len(rest), cnt)
	}
	for i := 0; i < cnt; i++ {
		r.Ranges = append(r.Ranges, [2]uint32{binary.BigEndian.Uint32(rest[8*i:]), binary.BigEndian.Uint32(rest[8*i+4:])})
	}
	return r, nil
}
