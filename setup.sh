#!/bin/bash
# MANIFEST.setup_cmd: build the driver and the simulator binaries from files on disk only (offline).
set -e
cd /verif/sim
export GOFLAGS=-mod=mod GOPROXY=off GOSUMDB=off GOTOOLCHAIN=local PATH=/opt/veriftools/go1.26.8/bin:$PATH GOCACHE=/verif/.cache/go-build
mkdir -p /verif/bin /verif/evidence /verif/replays
go build -o /verif/bin/verif ./cmd/verif
exec /verif/bin/verif setup
