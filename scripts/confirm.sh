#!/bin/bash
# confirm.sh <ID> <A|B> <PROP...> : confirm a sub-agent's change in the scratch worktree /tmp/evalwt (compiles, suite
# passes, demo passes without / fails with the change), then run the named checks against that worktree.
ID=$1; V=$2; shift 2
OUT=/tmp/mut/$ID-out/$V
WT=${WT:-/tmp/evalwt}
export GOFLAGS=-mod=mod GOPROXY=off GOSUMDB=off
cd $WT && git checkout -q -- . && git clean -fdq
RACE=""; [ "$ID" = C18 ] && RACE="-race"
mods=$(cd $OUT/demo && ls -d */ 2>/dev/null | tr -d /)
cp -r $OUT/demo/*/ $WT/ 2>/dev/null
# Demonstrations of changes under protocol/ seen through service/attachment/terminal need the local protocol/ and shared/
# trees: the agent's own *.mod file if it delivered one, else a temporary copy of go.mod with replace lines.
modflag() {
  m=$1; MF=""
  own=$(ls $OUT/demo/$m/*.mod 2>/dev/null | head -1)
  if [ -n "$own" ]; then MF="-modfile=$(basename $own)"
  elif [ "$m" != protocol ] && grep -q modfile $OUT/demo/RUN.txt 2>/dev/null; then
    D=$(mktemp -d /tmp/mf-$(basename $WT).XXXXXX); cp $WT/$m/go.mod $D/go.mod; cat $WT/$m/go.sum $WT/protocol/go.sum $WT/shared/go.sum 2>/dev/null | sort -u > $D/go.sum
    printf '\nreplace github.com/cuteLittleDevil/go-jt808/protocol => %s/protocol\nreplace github.com/cuteLittleDevil/go-jt808/shared => %s/shared\n' $WT $WT >> $D/go.mod
    MF="-modfile=$D/go.mod"
  fi
  echo "$MF"
}
TAGS=""; grep -q -- "-tags" $OUT/demo/RUN.txt 2>/dev/null && TAGS="-tags $(grep -o -- '-tags[= ][a-z_]*' $OUT/demo/RUN.txt | head -1 | sed 's/-tags[= ]//')"
rundemo() { for m in $mods; do (cd $WT/$m && timeout 900 go test $RACE $TAGS $(modflag $m) -vet=off -count=1 -run 'MutDemo' ./... 2>&1 | tail -3 | tr '\n' ' '); done; rm -rf /tmp/mf-$(basename $WT).*; }
echo "[demo without change] $(rundemo)"
git apply $OUT/patch.diff || { echo "PATCH DOES NOT APPLY"; exit 1; }
B=ok; for m in protocol service attachment terminal; do (cd $WT/$m && go build ./... && go vet ./... ) >/dev/null 2>&1 || B="BUILD/VET FAIL in $m"; done
echo "[build+vet with change] $B"
# existing suite (demo files are removed for this so that only the project's own tests run)
find $WT -name 'mutdemo*' -delete; git -C $WT checkout -q -- '*.sum' '*.mod' 2>/dev/null
S=ok; for m in protocol service terminal; do (cd $WT/$m && go test -vet=off -count=1 ./... >/dev/null 2>&1) || S="SUITE FAIL in $m"; done
echo "[suite with change] $S"
cp -r $OUT/demo/*/ $WT/ 2>/dev/null
echo "[demo with change] $(rundemo)"
find $WT -name 'mutdemo*' -delete; git -C $WT checkout -q -- '*.sum' 2>/dev/null
cd /verif
for P in "$@"; do
  O=$(VERIF_REPO=$WT VERIF_EVIDENCE_DIR=/tmp/ev-wt-$(basename $WT) VERIF_WORKERS=${VERIF_WORKERS:-8} ./bin/verif check $P --tier ${TIER:-quick} 2>&1); RC=$?
  L=$(echo "$O" | grep -E "^violation:" -A1 | tr '\n' ' ' | cut -c1-330)
  [ -z "$L" ] && L=$(echo "$O" | tail -1 | cut -c1-200)
  echo "[check $P] exit=$RC $L"
  echo "$O" | grep -E "^VIOLATION" | head -1
done
cd $WT && git checkout -q -- . && git clean -fdq
