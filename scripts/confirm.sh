#!/bin/bash
# confirm.sh <ID> <A|B> <PROP...> : confirm a sub-agent's change in the scratch worktree /tmp/evalwt (compiles, suite
# passes, demo passes without / fails with the change), then run the named checks against that worktree.
ID=$1; V=$2; shift 2
OUT=/tmp/mut/$ID-out/$V
WT=/tmp/evalwt
export GOFLAGS=-mod=mod GOPROXY=off GOSUMDB=off
cd $WT && git checkout -q -- . && git clean -fdq
RACE=""; [ "$ID" = C18 ] && RACE="-race"
mods=$(cd $OUT/demo && ls -d */ 2>/dev/null | tr -d /)
cp -r $OUT/demo/*/ $WT/ 2>/dev/null
rundemo() { for m in $mods; do (cd $WT/$m && timeout 600 go test $RACE -vet=off -count=1 -run 'MutDemo' ./... 2>&1 | tail -3 | tr '\n' ' '); done; }
echo "[demo without change] $(rundemo)"
git apply $OUT/patch.diff || { echo "PATCH DOES NOT APPLY"; exit 1; }
B=ok; for m in protocol service attachment terminal; do (cd $WT/$m && go build ./... && go vet ./... ) >/dev/null 2>&1 || B="BUILD/VET FAIL in $m"; done
echo "[build+vet with change] $B"
# existing suite (demo files are removed for this so that only the project's own tests run)
find $WT -name 'mutdemo*' -delete
S=ok; for m in protocol service terminal; do (cd $WT/$m && go test -vet=off -count=1 ./... >/dev/null 2>&1) || S="SUITE FAIL in $m"; done
echo "[suite with change] $S"
cp -r $OUT/demo/*/ $WT/ 2>/dev/null
echo "[demo with change] $(rundemo)"
find $WT -name 'mutdemo*' -delete; git -C $WT checkout -q -- '*.sum' 2>/dev/null
cd /verif
for P in "$@"; do
  O=$(VERIF_REPO=$WT VERIF_EVIDENCE_DIR=/tmp/ev-wt VERIF_WORKERS=${VERIF_WORKERS:-8} ./bin/verif check $P --tier ${TIER:-quick} 2>&1); RC=$?
  L=$(echo "$O" | grep -E "^violation:" -A1 | tr '\n' ' ' | cut -c1-330)
  [ -z "$L" ] && L=$(echo "$O" | tail -1 | cut -c1-200)
  echo "[check $P] exit=$RC $L"
  echo "$O" | grep -E "^VIOLATION" | head -1
done
cd $WT && git checkout -q -- . && git clean -fdq
