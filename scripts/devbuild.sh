#!/bin/bash
# development helper: instrument /repo and build the DET (and optionally RACE) simulator binary
set -e
export GOFLAGS=-mod=mod GOPROXY=off GOSUMDB=off GOTOOLCHAIN=local PATH=/opt/veriftools/go1.26.8/bin:$PATH
cd /verif/sim
mkdir -p /verif/bin
go build -o /verif/bin/verif-instr ./instr
T=$(mktemp -d)
trap 'rm -rf $T' EXIT
/verif/bin/verif-instr -src /repo/service -dst $T/service -meta $T/service.json >/dev/null
/verif/bin/verif-instr -src /repo/attachment -dst $T/attachment -os -meta $T/attachment.json -probebase 1000 >/dev/null
/verif/bin/verif-instr -src /repo/protocol/model -dst $T/model -hookmethods ReplyBody >/dev/null
python3 - $T <<'PY'
import json,os,sys
t=sys.argv[1]
rep={}
for pkg in ("service","attachment"):
    for f in os.listdir(os.path.join(t,pkg)):
        rep[f"/verif/sim/gen/{pkg}/{f}"]=os.path.join(t,pkg,f)
for f in os.listdir(os.path.join(t,"model")):
    rep[f"/repo/protocol/model/{f}"]=os.path.join(t,"model",f)
json.dump({"Replace":rep},open(os.path.join(t,"overlay.json"),"w"))
PY
go test -c -vet=off -overlay $T/overlay.json -o /verif/bin/sim.det ./harness
if [ "$1" = race ]; then go test -c -race -vet=off -overlay $T/overlay.json -o /verif/bin/sim.race ./harness; fi
