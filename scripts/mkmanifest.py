#!/usr/bin/env python3
# Regenerates /verif/MANIFEST.json from the table below (kept in one place so that it is always valid).
import json, sys
NA_REASON = "pure, single-threaded function of its input bytes/values: no schedule, clock, fault, crash point or history for a simulator to decide; this is property-based/enumerative territory, a different technique family (DESIGN.md section 0)"
na = {
 "C01": NA_REASON, "C02": NA_REASON, "C07": NA_REASON, "C08": NA_REASON,
 "C17": NA_REASON + "; the repository has no stream consumer for jt1078 outside example/",
}
checks = {
 # id: (level, design_ref, technique, text, note)
 "C04": ("exploration", "5/C04", "deterministic simulation: seeded segmentation x schedule search + enumerated 1-/2-cut positions, oracle = sent frame list (reference codec)",
         "Real reader/parser of service runs on a simulated socket; every run compares the messages the server extracted (ids, serials, phones, bodies at delivery time, timeliness at quiescence) with the frames the simulated terminals sent, under seeded random cuts (bytewise, coalesced, inside escape pairs, before delimiters, >1023 B frames) and enumerated single/double cut positions of short streams. Sampled, not exhaustive beyond the enumerated cuts.",
         "trusts the AST rewriter, simnet's chunk model of TCP reads, the hand-written reference codec"),
}
pending = {}
all_ids = ["C%02d" % i for i in range(1, 21)]
man = {
 "version": 1,
 "setup_cmd": "./setup.sh",
 "hooks": {
   "guard": "verif",
   "enable": "no hook is committed to /repo: checks generate instrumented copies of service/ and attachment/ from the current working tree with sim/instr (yields, select/go/map-range rewrites, net->simnet, os->simfs) and pass them to `go test -c -overlay`; build tag 'verif' is reserved and unused",
   "baseline_off_cmd": "for m in protocol service terminal; do (cd /repo/$m && go test -vet=off -count=1 ./...) || exit 1; done",
   "source_commits": [],
   "add_only": True,
 },
 "engines": [
   {"name": "det-sim", "path": "sim/", "serves_properties": sorted(k for k in checks if k != "C18"),
    "kind_free_text": "deterministic simulation with fault injection: token scheduler on testing/synctest, simulated net/fs/clock, seeded plans and schedules, replay + shrinking"},
 ],
 "checks": [],
 "not_applicable": [],
 "notes": "bin/verif check <ID> --tier quick|thorough; VERIF_SEED selects the seed stream; replay files under /verif/replays; known findings in /verif/known_findings.jsonl",
}
for pid in all_ids:
    if pid in checks:
        level, ref, tech, text, note = checks[pid]
        man["checks"].append({
          "property_id": pid,
          "quick_cmd": f"bin/verif check {pid} --tier quick",
          "thorough_cmd": f"bin/verif check {pid} --tier thorough",
          "evidence_file": f"/verif/evidence/{pid}.json",
          "replay_cmd_template": "bin/verif replay {path}",
          "engine": "race-sim" if pid == "C18" else "det-sim",
          "level_claimed": {"category": level, "text": text, "design_ref": "DESIGN.md section " + ref},
          "level_note": note,
          "technique": tech,
        })
    elif pid in na:
        man["not_applicable"].append({"property_id": pid, "reason": na[pid]})
    else:
        man["not_applicable"].append({"property_id": pid, "reason": pending.get(pid, "claimed by DESIGN.md; its check is not built yet in this commit (work in progress) - not claimed until it is")})
json.dump(man, open("/verif/MANIFEST.json", "w"), indent=1)
print("checks:", [c["property_id"] for c in man["checks"]])
