#!/usr/bin/env python3
# Regenerates /verif/MANIFEST.json from the table below (kept in one place so that it is always valid).
import json, sys
NA_REASON = "pure, single-threaded function of its input bytes/values: no schedule, clock, fault, crash point or history for a simulator to decide; this is property-based/enumerative territory, a different technique family (DESIGN.md section 0)"
na = {
 "C01": NA_REASON, "C02": NA_REASON, "C07": NA_REASON, "C08": NA_REASON,
 "C17": NA_REASON + "; the repository has no stream consumer for jt1078 outside example/",
}
checks = {
 # id: (level, design_ref, technique, text, note)
 "C04": ("exploration", "5/C04", "deterministic simulation: seeded segmentation x schedule search + enumerated 1-/2-cut positions, oracle = sent frame list (reference codec)",
         "Real reader/parser of service runs on a simulated socket; every run compares the messages the server extracted (ids, serials, phones, bodies at delivery time, timeliness at quiescence) with the frames the simulated terminals sent, under seeded random cuts (bytewise, coalesced, inside escape pairs, before delimiters, >1023 B frames) and enumerated single/double cut positions of short streams, a read that completes a pending frame and carries 68 more, and a frame longer than one read with more than 5 s before its rest. Sampled, not exhaustive beyond the enumerated cuts.",
         "trusts the AST rewriter, simnet's chunk model of TCP reads, the hand-written reference codec"),
}
checks.update({
 "C05": ("exploration", "5/C05", "deterministic simulation: seeded packet orders/duplicates/interleavings x segmentation x schedules, oracle = reference reassembly table over the delivery history",
         "Real sub-package reassembly on live simulated connections: transfers with permuted, duplicated and impossible-numbered packets, two concurrent message IDs, ordinary frames in between, every segmentation style; the oracle replays the environment's deliveries through a reference reassembly table and demands exactly one complete message per completely delivered transfer, byte-identical to the concatenation of the sent packet bodies, not before the last missing packet and not later than the next quiescent point, plus exactly one correct reply. Sampled.",
         "trusts rewriter, simnet, reference codec; totals up to 12 (quick) / 64 (thorough)"),
 "C06": ("exploration", "5/C06", "deterministic simulation + sequential reference server model over the recorded history",
         "Whole conversations (every default 0x0xxx/0x1xxx ID, unsupported IDs, both header versions, sub-packaged messages, 1-4 concurrent connections, all segmentations and schedules) against a reference model: reply kind per message, echo fields, authentication result against the code the server issued in this run, addressing, reply order, platform serials 0,1,2,... over every frame written incl. a >65536-reply wrap-around run, read/write callbacks exactly once with the bytes on the socket; some connections carry frames under another phone number or header version (addressing judged per request), too-short 2019 0x0102 and cut-short 0x0100 bodies, idle gaps that make the server write re-requests (which take part in the numbering), single-packet 'transfers'. Sampled.",
         "reference reply table transcribed from the property text/standard; body of 0x1003/0x1212 acknowledgements not inspected"),
 "C09": ("exploration", "5/C09", "deterministic simulation: reader/writer interleavings (writer-starving strategies) with retained-message snapshots",
         "Every message handed to a callback is retained with a deep copy; after every later callback and at the end of the run (after later reads, after the connection closed) the retained message must equal its copy; replies and reassembled bodies must be those of their own message. Schedules let the reader run ahead of the writer up to the channel capacities.",
         "plain memory orderings between two yield points are C18's subject, not visible here"),
 "C14": ("exploration", "5/C14", "deterministic simulation on the synctest fake clock + reference reassembly/timer model",
         "Transfers with plan-chosen missing sets, idle gaps just below/above 5 s and 60 s on the simulated clock, repeated re-request rounds, partial resupply, two concurrent IDs; every 0x8003 the server writes is parsed by the reference codec and must be due (idle > 5 s at inbound data, at most once per 5 s), name the first packet's serial and exactly the missing numbers ascending; expired transfers never complete, resupplied ones do. Every delivery counts as inbound data, also the first segment of a split frame; a missing packet may arrive unasked as the first data after the silence. Sampled; N up to 24 (quick) / 255 (thorough).",
         "exact 5 s / 60 s boundary instants are avoided by the generator (property does not say which way they fall)"),
})
checks.update({
 "C11": ("exploration", "5/C11", "deterministic simulation + porcupine linearizability check of the recorded join/leave/send history against a key->connection map, plus direct callback rules",
         "2-3 keys, 3-8 connections competing for them (duplicate-key connects, FIN/RST, reconnects, connections that never join) and 1-6 concurrent SendActiveMessage callers under all scheduling strategies; invoke/return events are stamped with the simulator's global step number and checked with porcupine (Illegal = violation, Unknown = inconclusive and counted); direct rules: refused connection closed by the server, one join and one leave callback with the same key, not-exist returned without simulated time passing, a connection whose first handled message (complete or a sub-package) was delivered is announced, a terminal that reconnects after the server closed its connection (corrupt frame) finds its key free.",
         "histories are capped at 40 operations; a send whose command never reached a socket (routed connection died first) is dropped from the history as unobservable"),
 "C12": ("exploration", "5/C12", "deterministic simulation with the synctest clock: concurrent callers x reactive terminal models (prompt/late/duplicate/unknown-serial/no response) x schedules (incl. clock jitter), oracle over the recorded history",
         "Every command is identified on the socket by its unique body, so the caller's own platform serial is known independently of the code; each call must return exactly once, with the terminal's frame that echoes that serial (never another caller's, never an invented or reused one) or with a timeout no earlier than the configured duration and, in runs without injected clock jitter, exactly at write time + timeout; a response delivered before the deadline must win; ordinary traffic in between must satisfy the C06 reply model incl. consecutive platform serials. The reactive terminals answer with minimal or content-bearing bodies (parameter lists with empty strings, id lists), as one frame or as 2-3 sub-packages (the caller must get the complete message), with a careless id field in general responses; timeouts include 0 (= the documented 3 s) and commands outside the handler table.",
         "0x9003/0x1003 (no serial on the wire) is not used with several outstanding commands"),
 "C13": ("fault_enumeration", "5/C13", "deterministic simulation: single-fault enumeration (FIN / RST / write failure at every scheduler step of FIFO baselines) + seeded random disconnect points and schedules; oracles = no panic in any goroutine, bounded liveness of every caller",
         "For each baseline command scenario every step index of its canonical schedule is used once as the instant of a peer FIN, once of a RST and once of a write failure on the command's connection (exhaustive over single fault points of those baselines); on top, seeded runs with 0-7 queued/outstanding commands, equal timeouts expiring together, clock jitter and all strategies. A panic anywhere is a violation (recorded instead of killing the process); after faults stop and the clock has passed every timeout, every SendActiveMessage call - including a probe call for an unknown key that detects a wedged session manager - must have returned.",
         "nothing is demanded about which error a caller gets; back-pressure from a stalled TCP peer is not modelled"),
})
checks.update({
 "C15": ("exploration", "5/C15", "deterministic simulation of the attachment server: seeded file sets/chunkings/orders/resends x stream segmentation x schedules, oracle = reference interval model over the delivery history",
         "The real attachment server runs on the simulated socket for all five dialects (incl. the length-prefixed HLJ data header); names and alarm IDs over arbitrary bytes incl. the marker 30316364, file contents containing the marker, permuted and re-sent data packets, control frames and data in one read, headers split across reads. A file may be reported complete (stage event or 0x9212 result 0) only if every byte of it had been delivered before, and its StreamBody must then equal the original bytes; each delivered control frame gets exactly one reply of the prescribed type echoing serial/id or naming the file; the session must not abort on well-formed input.",
         "files up to a few KiB (quick) / ~100 KiB (thorough); names without NUL and within the data header's 50 bytes"),
 "C16": ("exploration", "5/C16", "deterministic simulation of the 0x1212 -> 0x9212 conversation with withheld data packets; oracle = complement-of-intervals reference, 0x9212 parsed by the reference codec",
         "Socket-driven half of the property: disjoint data packets with a plan-chosen subset withheld (gaps at start/middle/end, adjacent packets, one-byte gaps, up to ~300 packets, files with 60-255 one-byte holes), 0x1212, resupply in one or two rounds, 0x1212 again, under every segmentation; each 0x9212 must say complete with no ranges iff the packets delivered before that 0x1212 cover the file, else retransmit with exactly the maximal missing ranges ascending. The pure StatisticalMissSegments function is reached only through this path; its exhaustive enumeration is not this family's business and is not claimed.",
         "partial claim (DESIGN.md section 0): the for-all-interval-sets quantifier of the pure function is sampled through the socket path only. One known finding (known_findings.jsonl, DESIGN.md section 13): a 0x9212 with more ranges than fit one frame body (from about 121) is written with an overflowing length field; the check prints its KNOWN-FINDING line, still judges the ranges inside such a response, and exits 0"),
 "C19": ("exploration", "5/C19", "deterministic simulation with a simulated file system: default file handler on simfs, hostile announced names, oracle = every recorded effect's resolved path",
         "The attachment server's default FileEventer runs against simfs (in-memory tree with Linux path resolution), pre-populated with files and directories outside the terminals' directories; names with .., absolute paths, separators, NUL, names of existing outside files, several terminals per run, closes at arbitrary points; every create/write/mkdir the server performs is recorded with its resolved absolute path and must lie inside <cwd>/<phone>/ (or be the server's own file.log); outside files must be unchanged.",
         "simfs has no symlinks"),
})
checks.update({
 "C10": ("fault_enumeration", "5/C10", "deterministic simulation of both servers: seeded hostile byte streams / adversarial frames / lifecycle faults next to well-behaved sessions, plus single-fault enumeration (FIN/RST of the hostile connection at every step of FIFO baselines); oracles = no panic anywhere, well-behaved sessions' own oracles, fresh connections served",
         "JT808 server and attachment server run together; 1-3 well-behaved sessions carry their full reply oracles while 1-3 hostile connections send random bytes, bit-flipped/truncated/extended frames, valid frames with adversarial header and body fields for every supported ID (counts exceeding items, impossible package numbers, names filling the body, adversarial data-packet names/offsets/lengths), with commands outstanding so malformed responses reach the writer's parsers, with default and parse-everything handlers and the default file handler, closing or resetting at arbitrary points. Hostile traffic also includes uploads with 255-513 holes, a client that floods and resets without reading (its number must be free for a well-behaved terminal afterwards), transient accept failures of the listeners. Any recovered panic is a violation, a run that never becomes quiescent is one (server_never_settles); afterwards a fresh connection to each server must be served. Enumeration: for each baseline every scheduler step once with FIN and once with RST on the hostile connection.",
         "a panic is recorded by the goroutine wrapper instead of killing the process (in production it would); hostile streams are sampled"),
})
checks.update({
 "C03": ("exploration", "5/C03", "deterministic simulation with parse-everything handlers (README pattern) + differential oracle: live receiver/live slice vs fresh receiver/exact-capacity copy",
         "PARTIAL claim (DESIGN.md section 0). What the simulator decides: on live connections each body is parsed by the per-connection handler object that has already parsed every earlier body of its type, from the connection's real buffers (other traffic behind the slice), under every segmentation; no decoder or String method may panic, and for every delivered message the live result must equal the result of a fresh receiver on an exact-capacity copy (mismatch classified beyond_slice / receiver_history). Bodies come from well-formed, inconsistent-count/length and mutated pools for all 17 terminal message types and five dialects. Not decided: totality over all byte strings (sampled only), jt1078.Decode and the vendor extension parsers unless reached through a registered handler.",
         "uses the repository against itself on purpose (independence, not correctness of values)"),
})
checks.update({
 "C18": ("exploration", "5/C18", "Go race detector evaluated on seeded deterministic schedules (token scheduler's own synchronisation hidden with runtime.RaceDisable + //go:norace, net ordering reproduced with RaceReleaseMerge/RaceAcquire), reports filtered to application frames",
         "The C06, C09, C11, C12, C13 scenarios plus a shared-header scenario (first message = first packet of a transfer, re-request while commands are issued) run in a -race build of the simulator; because the scheduler's hand-offs are invisible to the detector it evaluates the application's own happens-before relation (channels, go, sync.Once, and the Write->Read ordering real sockets give) on each schedule. A report counts only if on both sides the innermost frame that is not runtime/stdlib/transparent shim lies in service, attachment, protocol or in the callback that stands in for user handler code; each report is confirmed by replaying its schedule in a fresh process. Identity of a finding = unordered pair of application functions.",
         "relies on RaceDisable ignoring synchronisation but not memory events; schedules sampled; ~8x slower than DET mode, so fewer runs"),
 "C20": ("exploration", "5/C20", "deterministic simulation: frames generated by the terminal simulator are sent to the live simulated server; the server's reply bytes are compared with ExpectedReply for the platform serial it used",
         "PARTIAL claim (DESIGN.md section 0): decides 'the predicted reply equals the reply the real server sends' for all three versions, phones of 1-12 (20) digits incl. ones whose template checksum is 0x7e/0x7d, default and custom bodies, under random segmentation and schedules, with a serial wrap-around run (2013 in both tiers, 2019 in the thorough tier). Riding along on every generated frame: decode, header and serial by the reference codec; a custom frame carries exactly the body it was given; a frame with the simulator's default body parses with a fresh value of its type and re-encodes identically. The re-encode clause for arbitrary custom bodies is not decided here.",
         "pairs replies with requests in order using the C06 reference model; a run in which the server disagrees with that model is C06's business and is skipped here"),
})
# additions of the eighth round (appended to the level texts above)
EXTRA = {
 "C04": "Since the ninth round: long-lived connections (90-170 frames, more than 8 KB of misaligned traffic) in 3 % of the runs.",
 "C06": "Since the eighth round: sub-packaged 0x0801 messages; the multimedia id a 0x8800 must echo is taken from the bytes the terminal sent, not from the body the server delivered.",
 "C14": "Since the ninth round: an abandoned transfer restarted with a new packet 1, judged on its own 60 s clock.",
 "C03": "Since the eighth round the 0x0200 handler is, in 35 % of the runs, the README's location type with the five vendor extension parsers (0x64-0x70) as per-connection receivers, and location bodies carry vendor items: these parsers are now reached (four defects repaired, one known finding: the 0x66 parser reads one byte past its item). jt1078.Decode stays undecided.",
 "C09": "Since the eighth round: unanswered platform commands while messages are held, stalled transfers whose held packets precede a re-request, and the rule that a delivered message's header is never used to encode a re-request or a platform command.",
 "C11": "Since the eighth round: 30 % of the runs install a WithKeyFunc whose keys differ from the phone numbers, part of them without a key for heartbeats (served, not joined; the next message with a key joins).",
 "C13": "Since the eighth round: listen failure as a fault (Run returns, nobody connects): commands issued before, while and after it must return.",
 "C15": "Since the eighth round: a later alarm on the same connection uploads a new file under an already used name (a completion report is judged against every file of that name announced so far); names may contain a zero byte.",
 "C16": "Since the eighth round: a later alarm reuses a file name, with losses and a resupply round in the new upload; since the tenth round re-sent data packets.",
 "C18": "Since the eighth round: part of the runs keep the library's default event objects, so that their fields are in the detector's view; C09's and C11's new scenarios are inherited.",
 "C19": "Since the eighth round: announced names longer than the 50-byte name field of a data packet whose first 50 bytes are a harmless local path (data packets carry the prefix). Since the ninth round: a user-written data handler (WithDataHandleFunc) in front of the default file handler in 12 % of the non-HLJ runs.",
 "C20": "Since the eighth round: requests for unsupported commands between frames (no frame, no serial consumed) and custom location bodies of 999..1023 bytes.",
}
for _k, _v in EXTRA.items():
    _t = checks[_k]
    checks[_k] = (_t[0], _t[1], _t[2], _t[3] + " " + _v) + tuple(_t[4:])
pending = {}
all_ids = ["C%02d" % i for i in range(1, 21)]
man = {
 "version": 1,
 "setup_cmd": "./setup.sh",
 "hooks": {
   "guard": "verif",
   "enable": "no hook is committed to /repo: checks generate instrumented copies of service/ and attachment/ from the current working tree with sim/instr (yields, select/go/map-range rewrites, net->simnet, os->simfs) and pass them to `go test -c -overlay`; the same overlay adds yield hooks to the ReplyBody methods of protocol/model (hook variable nil outside a simulated run); build tag 'verif' is reserved and unused",
   "baseline_off_cmd": "for m in shared protocol service attachment terminal; do (cd /repo/$m && go test -json -vet=off -count=1 -timeout 25m ./...); done",
   "source_commits": [],
   "add_only": True,
 },
 "engines": [
   {"name": "det-sim", "path": "sim/", "serves_properties": sorted(k for k in checks if k != "C18"),
    "kind_free_text": "deterministic simulation with fault injection: token scheduler on testing/synctest, simulated net/fs/clock, seeded plans and schedules, replay + shrinking"},
   {"name": "race-sim", "path": "sim/", "serves_properties": ["C18"],
    "kind_free_text": "the same simulator built with -race: the Go race detector judges each seeded deterministic schedule"},
 ],
 "checks": [],
 "not_applicable": [],
 "notes": "bin/verif check <ID> --tier quick|thorough; VERIF_SEED selects the seed stream; replay files under /verif/replays; known findings in /verif/known_findings.jsonl",
}
for pid in all_ids:
    if pid in checks:
        level, ref, tech, text, note = checks[pid]
        man["checks"].append({
          "property_id": pid,
          "quick_cmd": f"bin/verif check {pid} --tier quick",
          "thorough_cmd": f"bin/verif check {pid} --tier thorough",
          "evidence_file": f"/verif/evidence/{pid}.json",
          "replay_cmd_template": "bin/verif replay {path}",
          "engine": "race-sim" if pid == "C18" else "det-sim",
          "level_claimed": {"category": level, "text": text, "design_ref": "DESIGN.md section " + ref},
          "level_note": note,
          "technique": tech,
        })
    elif pid in na:
        man["not_applicable"].append({"property_id": pid, "reason": na[pid]})
    else:
        man["not_applicable"].append({"property_id": pid, "reason": pending.get(pid, "claimed by DESIGN.md; its check is not built yet in this commit (work in progress) - not claimed until it is")})
json.dump(man, open("/verif/MANIFEST.json", "w"), indent=1)
print("checks:", [c["property_id"] for c in man["checks"]])
