#!/bin/bash
# evalmut.sh <patch.diff> <PROP> [<PROP>...]  : apply a seeded change to /repo, run the named checks (quick), undo.
# Prints one line per check: PROP exit=<code> <VIOLATION line or summary>. Never leaves /repo modified.
PATCH=$1; shift
cd /repo || exit 2
if [ -n "$(git status --porcelain)" ]; then echo "/repo is not clean"; exit 2; fi
trap 'git -C /repo checkout -q -- . ; git -C /repo clean -fdq' EXIT
git apply "$PATCH" || { echo "patch does not apply"; exit 2; }
cd /verif
for P in "$@"; do
  OUT=$(VERIF_RUNS=${VERIF_RUNS:-40000} ./bin/verif check $P --tier ${TIER:-quick} 2>&1); RC=$?
  V=$(echo "$OUT" | grep -E "^VIOLATION|^violation:|^  " | head -3 | tr '\n' ' ' | cut -c1-400)
  [ -z "$V" ] && V=$(echo "$OUT" | tail -1 | cut -c1-300)
  echo "$P exit=$RC $V"
done
