import json,os,shutil
D={
'C12-A':("the drain of queued commands at stop lost its loop: only one queued command is answered when the connection stops","at least two commands queued for a terminal whose writer is busy, then the terminal disconnects and the writer sees the stop first",["C13"],["C12"],"C12's scenarios end connections only after their commands; C13 (disconnect at every point) reports the stranded caller"),
'C12-B':("a command is recorded as outstanding only after a successful write: a failed write is reported to nobody","a command taken from the queue after the terminal has gone (write error at that call site)",["C13"],["C12"],""),
'C13-A':("stop() skips the registry leave when the connection's key is the empty string","a WithKeyFunc that can yield \"\" as a key (TrimLeft of an all-zero phone), that terminal disconnecting, then a command for key \"\"",[],["C13","C11"],"NOT REPORTED: no key function of the scenarios yields the empty string as a key (whether \"\" is a usable key at all is doubtful: on the unchanged tree every connection that never joined also leaves with key \"\")"),
'C13-B':("teardown answers outstanding commands with a non-blocking send: a caller that is not yet parked on its reply channel is never answered","caller descheduled between queueing its command and parking on the reply channel while the command is written and the terminal leaves",["C13"],["C12"],""),
'C16-A':("a data packet received twice at one offset is counted twice: the file is 'complete' when the duplicated bytes equal the missing ones","a re-sent packet whose length equals what is still missing when the 0x1212 arrives",["C15","C16"],[],"first evaluation: C15 only (C16's scenarios had no re-sent packets); they now have"),
'C16-B':("gap test off by one: a hole of exactly one byte followed by received data is not listed","a one-byte hole at offset 0 or between two packets",["C16"],[],"(first evaluation was spoiled by two jobs sharing one scratch worktree; repeated alone)"),
}
rows=[]
for k,(br,need,rep,norep,note) in D.items():
    pid,v=k.split('-')
    src=f'/tmp/mut/{pid}-out/{v}'; dst=f'/verif/seeded/{k}10'
    if os.path.exists(dst): shutil.rmtree(dst)
    os.makedirs(dst)
    shutil.copy(f'{src}/patch.diff',dst)
    shutil.copytree(f'{src}/demo',f'{dst}/demo')
    if os.path.exists(f'{src}/notes.md'): shutil.copy(f'{src}/notes.md',dst)
    m={"id":k+"10","wave":10,"property":pid,"breaks":br,"needs_to_manifest":need,
       "source":"written by an independent sub-agent (tenth round, three properties, 3-6 minutes each; nothing from /verif)",
       "confirmed_by_me":{"worktree":"/tmp/evalwt1..3 (git worktrees of /repo at b0804ea)","compiles_and_vets":True,"existing_suite_passes_with_change":True,"demo_passes_without_change":True,"demo_fails_with_change":True,"command":f"WT=/tmp/evalwtN scripts/confirm.sh {pid} {v} <checks>"},
       "quick_checks_that_report_it":rep,"quick_checks_run_that_do_not":norep,"note":note}
    json.dump(m,open(f'{dst}/meta.json','w'),indent=1,ensure_ascii=False)
    rows.append(f"| {k}10 | {br} | {need} | {', '.join(rep) or '**none**'} | {', '.join(norep) or '-'} |")
open('/tmp/mut/rows10.md','w').write('\n'.join(rows)+'\n')
