import json,os,shutil,sys
D={
'C03-A':("jt1078 decodeHead: minimum-length guard uses '<' where the timestamp read uses '!=': reserved data types 5-15 read 8 bytes past an 18..25-byte header","a 01cd packet with a reserved data type whose slice ends 18-25 bytes into the header",[],["C03"],"NOT REPORTED: jt1078.Decode is outside the decided part of C03 (no simulated component calls it; DESIGN section 5/C03)"),
'C03-B':("Header.decode: the length guard moved above the block that selects the 2019 sizes, so a 2019 header cut inside its phone number passes it","a frame with a correct check code, the 2019 version bit and an unescaped length of 12-16 bytes",["C10"],["C03","C04"],"C10 reports the crash (hostile short frames with a valid check code); on a live connection the frame is rejected either way, so C03/C04 see no difference"),
'C06-A':("completePack no longer hands the merged body over: a completed sub-packaged message keeps the last packet's body","a sub-packaged message on an id whose reply depends on the body (0x0801), or any check of the reassembled body",["C05"],["C06"],""),
'C06-B':("0x0102 reply compares the phone with the auth code stripped of leading zeros","the all-zero phone, or a code equal to the phone left-padded with zeros",["C06"],[],""),
'C09-A':("reassembly record shares packet 1's header instead of copying it: building a 0x8003 rewrites the header of the delivered packet-1 message","a sub-packaged transfer whose packet 1 is held by a callback, incomplete and idle for more than 5 s, then more data",None,None,""),
'C09-B':("session keeps the join message's own header: every later platform command is encoded through the header of the delivered first message","the first message of a connection held by a callback, then a platform command for that key",None,None,""),
'C11-A':("reader treats every join outcome that is not a duplicate as joined: a connection whose first message has no key latches joined with an empty key","WithKeyFunc returning ok=false for a connection's first handled message, then a message that has a key",["C11"],[],"first evaluation: not reported (no key function without a key for some messages); C11's generator now has one (tag-nohb)"),
'C11-B':("session manager goroutine started in Run after a successful listen instead of in New","SendActiveMessage before the listener is up, or after a failed listen (permanent block)",["C13"],["C11","C12"],"first evaluation: not reported; simnet now injects listen failures and C13 issues commands around one"),
'C12-A':("hand-over of a command to the connection made non-blocking: a fourth queued command is refused with a write failure","more than 3 commands for one terminal handed over before its writer takes one",["C12"],["C13"],""),
'C12-B':("0x8003 stamped with the next platform serial without advancing the counter: the next frame reuses the serial","a re-request (stalled transfer, more than 5 s) directly followed by another platform frame",["C12","C14"],[],""),
'C13-A':("default handler table built once before the accept loop: all connections share one map that the accept goroutine keeps writing","WithCustomHandleFunc returning entries, a terminal connecting while another looks a handler up",["C18","C10"],["C13"],"C13's scenarios use the default handlers; C18 (shared map race) and C10 (handler objects of another connection answer) report it"),
'C13-B':("outstanding-command record deleted on the response path only: a timed-out command stays recorded and is answered again on a closed channel when the terminal leaves","a command that times out, then the terminal disconnects",["C13","C12"],[],""),
'C15-A':("missing-segment computation returns early when no packet was recorded: the missing tail (the whole file) is not reported","a 0x1212 for an announced file of which no data packet has arrived",["C15","C16"],[],""),
'C15-B':("name field of a data packet cut at its first zero byte instead of trimmed","a file name with a zero byte inside (non-HLJ dialects)",["C15"],[],"first evaluation: not reported (generated names had no zero byte); names now may contain one"),
'C16-A':("a 0x1210 that re-announces a known file name keeps the old record","a later alarm on the connection reusing a file name, its upload with losses",["C15","C16"],[],"first evaluation: C15 only (name reuse had just been added there); C16's generator now reuses names too"),
'C16-B':("gap computation guarded by 'more than one segment': with exactly one packet received the whole file is listed","exactly one data packet received, file incomplete",["C16"],[],""),
'C18-A':("platform serial number turned from an atomic into a plain field read by the reader's error logging","a connection ending (read/parse error) while the writer still hands out serials",["C18"],[],""),
'C18-B':("event object created once before the accept loop: all connections share the default event object whose createTime a refused join writes","a refused duplicate join while an unrelated connection leaves",["C18"],[],"first evaluation: not reported (every run installed the recording event objects); some RACE runs now keep the library's default ones"),
'C20-A':("CreateDefaultCommandData advances the serial before the handler-table lookup: a request for an unsupported command burns a serial","an unsupported command requested between two ordinary frames",["C20"],[],"first evaluation: not reported; the generator now requests unsupported commands"),
'C20-B':("Header.Encode sets the fragmented bit for bodies of 1000 bytes and more without writing package fields","a custom body of 1000-1023 bytes",["C20"],[],"first evaluation: not reported; the generator now builds location bodies at the frame limit"),
}
if len(sys.argv)>1:
    extra=json.load(open(sys.argv[1]))
    for k,v in extra.items():
        d=list(D[k]); d[2],d[3]=v; D[k]=tuple(d)
for k,(br,need,rep,norep,note) in D.items():
    pid,v=k.split('-')
    src=f'/tmp/mut/{pid}-out/{v}'; dst=f'/verif/seeded/{k}8'
    if os.path.exists(dst): shutil.rmtree(dst)
    os.makedirs(dst)
    shutil.copy(f'{src}/patch.diff',dst)
    shutil.copytree(f'{src}/demo',f'{dst}/demo')
    if os.path.exists(f'{src}/notes.md'): shutil.copy(f'{src}/notes.md',dst)
    m={"id":k+"8","wave":8,"property":pid,"breaks":br,"needs_to_manifest":need,
       "source":"written by an independent sub-agent (eighth round, ten properties, about 5 minutes each; nothing from /verif)",
       "confirmed_by_me":{"worktree":"/tmp/evalwt1..3 (git worktrees of /repo at 0c043c9)","compiles_and_vets":True,"existing_suite_passes_with_change":True,"demo_passes_without_change":True,"demo_fails_with_change":True,"command":f"WT=/tmp/evalwtN scripts/confirm.sh {pid} {v} <checks>"},
       "quick_checks_that_report_it":rep,"quick_checks_run_that_do_not":norep,"note":note}
    json.dump(m,open(f'{dst}/meta.json','w'),indent=1,ensure_ascii=False)
print(len(D))
