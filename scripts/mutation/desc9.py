import json,os,shutil
D={
'C04-A':("buffered path postpones parsing after a full 1023-byte read that ends inside a frame: frames completed in that read are withheld until the next read","a read of exactly 1023 bytes that completes at least one frame and ends inside a later one, and an observer at quiescence",["C04"],[],""),
'C04-B':("pending buffer pre-sized to 8 KB and filled by copy: cutting frames off its front shrinks the capacity, reads are silently truncated","about 8 KB of traffic on one connection during which the pending buffer is never empty",["C04"],["C06"],"first evaluation: not reported (streams of at most a dozen frames); 3 % of C04's runs now have a long-lived connection with 90-170 frames under random cuts"),
'C05-A':("reassembled body allocated as len(packet1)*(N-1)+len(packetN) and filled by offset","N >= 3 and a middle packet whose body length differs from packet 1's",["C05","C09"],[],""),
'C05-B':("pending buffer reset when it exceeds 2*1023 bytes without a closing delimiter","a legal frame of more than 2046 wire bytes (escape-dense body near 1023 bytes) with a read boundary late in the frame",["C04"],["C05"],"C04's escape-dense near-maximum frames report it; C05's packets are shorter"),
'C10-A':("package-number range check compares with the arriving frame's own total instead of the record's size","a sub-package whose number exceeds the record of its id (9/9 after 1/2), or a part >= 2 with no record",["C10","C05"],[],""),
'C10-B':("nil guard for the current package removed in the default file handler's retransmit stage","0x1210 then 0x1212 for an announced file before any data packet",["C10"],["C15"],"C15 installs the recording file handler; C10 runs the default one"),
'C14-A':("a new packet 1 for an id with an unfinished record reuses the record without resetting its creation time","abandoned transfer, restart with a new packet 1, inbound data more than 60 s after the first start and less than 60 s after the second",["C14"],["C05"],"first evaluation: not reported (C14 used one transfer per message id); 20 % of C14's runs now restart an abandoned transfer"),
'C14-B':("60 s sweep runs only on reads on which some transfer is due for a re-request","a transfer older than 60 s on a read where nothing has been idle for more than 5 s",["C14"],[],""),
'C19-A':("locality check moved from the default file handler into the standard data handler's 0x1210 registration","a custom data handler (WithDataHandleFunc) that fills the record table itself, combined with the default file handler, and a hostile name",[],["C19"],"NOT REPORTED: every scenario uses the standard data handler, for which the change is invisible"),
'C19-B':("hand-rolled locality test that counts '.' as a directory level","a name whose '.' components precede at least as many '..' components (./../x)",["C19"],[],""),
}
for k,(br,need,rep,norep,note) in D.items():
    pid,v=k.split('-')
    src=f'/tmp/mut/{pid}-out/{v}'; dst=f'/verif/seeded/{k}9'
    if os.path.exists(dst): shutil.rmtree(dst)
    os.makedirs(dst)
    shutil.copy(f'{src}/patch.diff',dst)
    shutil.copytree(f'{src}/demo',f'{dst}/demo')
    if os.path.exists(f'{src}/notes.md'): shutil.copy(f'{src}/notes.md',dst)
    m={"id":k+"9","wave":9,"property":pid,"breaks":br,"needs_to_manifest":need,
       "source":"written by an independent sub-agent (ninth round, five properties, 3-5 minutes each; nothing from /verif)",
       "confirmed_by_me":{"worktree":"/tmp/evalwt1..3 (git worktrees of /repo at b0804ea)","compiles_and_vets":True,"existing_suite_passes_with_change":True,"demo_passes_without_change":True,"demo_fails_with_change":True,"command":f"WT=/tmp/evalwtN scripts/confirm.sh {pid} {v} <checks>"},
       "quick_checks_that_report_it":rep,"quick_checks_run_that_do_not":norep,"note":note}
    json.dump(m,open(f'{dst}/meta.json','w'),indent=1,ensure_ascii=False)
rows=[]
esc={'C04-B9':'C04, C06','C14-A9':'C14, C05','C19-A9':'C19','C05-B9':'C05','C10-B9':'C15'}
for k in sorted(D):
    br,need,rep,norep,note=D[k]
    rows.append(f"| {k}9 | {br} | {need} | {', '.join(rep) or '**none**'} | {', '.join(norep) or '-'} | {esc.get(k+'9','-') if not rep or 'first evaluation' in note else '-'} |")
open('/tmp/mut/rows9.md','w').write('\n'.join(rows)+'\n')
print(len(D))
