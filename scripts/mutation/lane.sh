#!/bin/bash
# lane.sh <n> <jobs...> ; job = ID:V:PROPS(comma)
n=$1; shift
for j in "$@"; do IFS=: read id v props <<<"$j"; echo "######## $id $v -> $props"; WT=/tmp/evalwt$n VERIF_WORKERS=4 /verif/scripts/confirm.sh $id $v ${props//,/ } 2>&1 | cut -c1-500; done
