#!/bin/bash
# seeded.sh [ID...] : re-run every stored seeded change (or the named ones) against the checks its meta.json
# lists as reporting it, in a scratch worktree of /repo (VERIF_REPO), and say whether each is still caught.
WT=${WT:-/tmp/evalwt}
[ -d $WT ] || git -C /repo worktree add -q --detach $WT HEAD
cd /verif
IDS="$@"; [ -z "$IDS" ] && IDS=$(cd seeded && ls -d */ | tr -d /)
for id in $IDS; do
  git -C $WT checkout -q -- . ; git -C $WT clean -fdq
  git -C $WT apply /verif/seeded/$id/patch.diff || { echo "$id: patch does not apply to $(git -C $WT rev-parse --short HEAD)"; continue; }
  for P in $(python3 -c "import json;print(' '.join(json.load(open('/verif/seeded/$id/meta.json'))['quick_checks_that_report_it']))"); do
    O=$(VERIF_REPO=$WT VERIF_EVIDENCE_DIR=/tmp/ev-wt-$(basename $WT) VERIF_WORKERS=${VERIF_WORKERS:-16} ./bin/verif check $P --tier quick 2>&1); RC=$?
    case $RC in 1) R=CAUGHT;; 0) R=MISSED;; *) R="INFRA($RC)";; esac
    echo "$id $P $R $(echo "$O" | grep -m1 '^violation:' | cut -c1-120)"
  done
done
git -C $WT checkout -q -- . ; git -C $WT clean -fdq
