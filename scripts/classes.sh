#!/bin/bash
# development helper: enumerate distinct violation signatures of a property on the current dev binary
# usage: classes.sh PROP [count] [rounds]
P=$1; N=${2:-2000}; R=${3:-8}
K=$(mktemp); : > $K
for i in $(seq 1 $R); do
  VERIF_MODE=batch VERIF_PROP=$P VERIF_TIER=quick VERIF_SEED=$i VERIF_FROM=0 VERIF_COUNT=$N VERIF_KNOWN=$K VERIF_REPLAY_DIR=/tmp/classes-$P VERIF_OUT=/tmp/classes-$P.json timeout 900 ${BIN:-/verif/bin/sim.det} -test.run TestWorker >/dev/null 2>&1
  python3 - $K /tmp/classes-$P.json <<'PY'
import json,sys
d=json.load(open(sys.argv[2]))
v=d.get('violations') or []
print("runs",d['runs'],"known",d['known'])
for x in v:
    print("NEW",x['sig'],"|",x['msg'][:300],"|",x['replay'])
    open(sys.argv[1],'a').write(json.dumps({"status":"known","signature":x['sig']})+"\n")
PY
done
rm -f $K
